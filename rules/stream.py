"""Streaming rules shared by C09 / C10: R-err inventory, R-pair (finish), R-lost (copied accumulator), TeeWriter."""
import os, re
from rules.common import (rdom, call_blocks, ok_exit_blocks, err_exit_blocks, site, single_defs, resolve_value, enum_switch_info,
                          edge_variants, arm_context)
from rules import errs
from core import guard_switches, must_pass, fmt_path, has_origin

HERE = os.path.dirname(os.path.abspath(__file__))
SCOPE = re.compile(r'(^|<)(util|parsing_reader|composed::message::(reader|builder|types|parser)|packet::(literal_data|compressed_data|many|single|packet_sum)|'
                   r'crypto::(sym|aead)|base64|armor|line_writer|normalize_lines|composed::cleartext)(::|$)')


def in_scope(p):
    return bool(SCOPE.search(p))


def r_err(ctx, P, whole_crate=True, only=None, floor=3000):
    """only: regex on the function path (another property re-using R-err for the modules it depends on)."""
    rev = errs.load_reviewed(os.path.join(HERE, 'reviewed', 'err_discards.txt'))
    seen = set()
    nsites = 0
    nfun = 0
    for p, r in sorted(ctx.f.bodies.items()):
        if r.get('derived'):
            continue
        if not whole_crate and not in_scope(p):
            continue
        if only and not re.search(only, p):
            continue
        b = ctx.wrap(r)
        calls = [t for i, t in b.calls() if t.get('rty', '').startswith('std::result::Result<')]
        if not calls:
            ctx.functions.discard(p)
            continue
        nfun += 1
        nsites += len(calls)
        for i, form, fn in errs.discards(b) + errs.err_to_ok(b):
            k = '%s:%s:%s' % (p, form, fn)
            if k in seen:
                continue
            seen.add(k)
            key = '%s:S09-1:discard:%s' % (P, k)
            scope = 'in the streaming scope' if in_scope(p) else 'outside the streaming scope'
            if k in rev:
                ctx.ok(key, 'R-err', 'reviewed discard (%s): %s' % (scope, rev[k]), function=p, site=site(b, i), feature=form)
            else:
                ctx.violation(key, 'R-err', 'the Result of `%s` is discarded (%s) in %s — not propagated, converted, stored or inspected' % (fn.split('::')[-1], form, p),
                              function=p, site=site(b, i), missing='form=%s callee=%s; add `?`/map_err, or list the exact key in rules/reviewed/err_discards.txt with a reason' % (form, fn))
    ctx.floor(P + ':S09-1:floor:sites', 'Result-returning call sites examined by R-err', nsites, floor)
    # entries that exist only under another feature configuration are tagged `[cfg=<name>]` and are not stale here
    stale = sorted(k for k in set(rev) - seen if not (rev[k].startswith('[cfg=') and not rev[k].startswith('[cfg=%s]' % ctx.config))
                   and not (only and not re.search(only, k)))
    ctx.check(P + ':S09-1:reviewed-table-fresh', 'R-err', 'every reviewed exception still matches a site (no stale suppression)', not stale, missing=stale)
    ctx.extra = dict(getattr(ctx, 'extra', {}), r_err_call_sites=nsites, r_err_functions=nfun, r_err_reviewed=sorted(seen & set(rev)))


FINISHERS = [
    (r'line_writer::LineWriter::<.*>::new$', r'line_writer::LineWriter::<.*>::finish$', 'LineWriter'),
    (r'armor::writer::Base64Encoder::<.*>::new$', r'armor::writer::Base64Encoder::<.*>::finish$', 'Base64Encoder'),
]


def r_pair(ctx, P):
    """Every creation of a writer whose Drop performs fallible I/O is followed, on all paths to Ok, by an explicit finish()
    whose error is propagated."""
    n = 0
    for p, r in sorted(ctx.f.bodies.items()):
        b = None
        for newrx, finrx, nm in FINISHERS:
            if p.endswith('::new') or '::tests::' in p:
                continue
            bb = ctx.wrap(r)
            news = bb.calls(newrx)
            if not news:
                continue
            b = bb
            n += 1
            oks = ok_exit_blocks(b)
            gs = [g for g, _ in guard_switches(b, oks, [r'call:.*' + finrx])]
            bad = None
            for i, t in news:
                p_ = b.find_path(t['t'], set(oks), removed=frozenset(gs))
                if p_ is not None:
                    bad = p_
            key = '%s:S09-2:finish:%s:%s' % (P, nm, p)
            desc = '%s created in %s is finished explicitly (error propagated) on every path to Ok; Drop would swallow the error of the final partial line/quantum' % (nm, p.split('::')[-1])
            if bad is None and gs:
                ctx.ok(key, 'R-pair', desc, function=p, guards=[site(b, g) for g in gs])
            else:
                ctx.violation(key, 'R-pair', desc, function=p, site=site(b, news[0][0]), witness=fmt_path(b, bad) if bad else None,
                              missing='no propagated call to %s::finish between construction and Ok' % nm)
        if b is None:
            ctx.functions.discard(p)
    ctx.floor(P + ':S09-2:floor', 'creation sites of LineWriter / Base64Encoder outside their own constructors', n, 4)


def wrapper_finishers(ctx, P):
    """The explicit finishers themselves reach the final write of the wrapped encoder and hand its error to the caller
    (otherwise the last partial quantum / line is written from a Drop, which swallows I/O errors)."""
    b = ctx.body('armor::writer::Base64Encoder::<W>::finish')
    if b is not None:
        key = P + ':S09-2:wrapper:Base64Encoder::finish'
        desc = 'Base64Encoder::finish returns the result of base64 EncoderWriter::finish on every path (the final quantum is not left to Drop)'
        fin = call_blocks(b, r'base64::write::EncoderWriter::<.*>::finish$')
        rets = b.returns()
        ok, wit = must_pass(b, rets, fin)
        flows = has_origin(b.operand_origins({'l': 0, 'pr': [], 'mv': 0}), r'call:base64::write::EncoderWriter::<.*>::finish$')
        if fin and ok and flows:
            ctx.ok(key, 'R-pair', desc, function=b.path, sites=[site(b, i) for i in fin])
        else:
            ctx.violation(key, 'R-pair', desc, function=b.path, witness=fmt_path(b, wit) if wit else None,
                          missing='no call to EncoderWriter::finish whose result is returned' if not fin or not flows else 'a return avoids EncoderWriter::finish')
    b = ctx.body("line_writer::LineWriter::<'a, W, N>::finish")
    if b is not None:
        key = P + ':S09-2:wrapper:LineWriter::finish'
        desc = 'LineWriter::finish clears the pending partial line only after two propagated write_all calls (pending bytes + line break)'
        clears = [i for i, k, s_ in b.stmts(lambda s: s['d']['pr'] and s['d']['pr'][-1].endswith('.extra_len') and s['r']['k'] == 'use'
                                            and 'k' in s['r']['o'][0] and s['r']['o'][0]['k'].get('v') == 0)]
        ws = [g for g, _ in guard_switches(b, clears, [r'call:std::io::Write::write_all$'])] if clears else []
        # two distinct guards in sequence: removing either one must leave the other on every path
        ok = bool(clears) and len(ws) >= 2
        wit = None
        if ok:
            for w in ws:
                ok1, wit1 = must_pass(b, clears, [w])
                if not ok1:
                    ok, wit = False, wit1
        dones = [i for i, k, s_ in b.stmts(lambda s: s['d']['pr'] and s['d']['pr'][-1].endswith('.finished') and s['r']['k'] == 'use'
                                           and 'k' in s['r']['o'][0] and s['r']['o'][0]['k'].get('v') in (1, True))]
        sw = [i for i, t in b.switches() if has_origin(b.switch_origins(i), r'field:.*\.extra_len$')]
        ok2, wit2 = must_pass(b, dones, sw) if dones else (False, None)
        if ok and ok2 and sw:
            ctx.ok(key, 'R-pair', desc, function=b.path, guards=[site(b, g) for g in ws])
        else:
            ctx.violation(key, 'R-pair', desc, function=b.path, witness=fmt_path(b, wit or wit2) if (wit or wit2) else None,
                          missing='extra_len reset sites=%d, propagated write_all guards=%d, finished stores=%d, extra_len tests=%d' % (len(clears), len(ws), len(dones), len(sw)))
    ctx.floor(P + ':S09-2:wrapper:floor', 'explicit finishers analysed', sum(1 for x in ('armor::writer::Base64Encoder::<W>::finish', "line_writer::LineWriter::<'a, W, N>::finish") if ctx.f.body(x) is not None), 2)


ACC = r'Hasher::write$|Digest::update$|DynDigest::update$|Update::update$'


def r_lost(ctx, P, key_prefix='S10-1'):
    n = 0
    for p, r in sorted(ctx.f.bodies.items()):
        if r.get('derived'):
            continue
        b = ctx.wrap(r)
        cs = b.calls(ACC)
        if not cs:
            ctx.functions.discard(p)
            continue
        defs = single_defs(b)
        for i, t in cs:
            n += 1
            k, v = resolve_value(b, t['args'][0], defs)
            if k == 'rv' and v['k'] == 'ref' and v['m'] == 'mut' and not v['p']['pr']:
                x = v['p']['l']
                d = defs.get(x)
                if d and d[1].get('k') != 'call' and d[1]['r']['k'] == 'use' and 'l' in d[1]['r']['o'][0] \
                        and any(e.startswith('.') for e in d[1]['r']['o'][0]['pr']) and d[1]['r']['o'][0].get('mv') == 0:
                    # written back?
                    back = any(s['r']['k'] == 'use' and s['r']['o'][0].get('l') == x and s['d']['pr'] for blk in b.blocks for s in blk['s'])
                    if not back:
                        src = d[1]['r']['o'][0]['pr'][-1]
                        ctx.violation('%s:%s:lost-update:%s' % (P, key_prefix, p), 'R-lost',
                                      'accumulator update in %s is applied to a copy taken out of field %s and discarded (the stored state never changes)' % (p.split('::')[-1], src),
                                      function=p, site=site(b, i), missing='update the field in place (e.g. `if let Some(ref mut x) = self.field`)')
    ctx.floor('%s:%s:floor' % (P, key_prefix), 'accumulator update call sites examined by R-lost', n, 60)
    ctx.extra = dict(getattr(ctx, 'extra', {}), r_lost_sites=n)


def tee_writer(ctx, P):
    b = None
    for p, r in ctx.f.bodies.items():
        if r.get('impl_self', '').startswith('util::TeeWriter<') and r.get('impl_trait') == 'std::io::Write' and r.get('name') == 'write':
            b = ctx.wrap(r)
    if b is None:
        ctx.missing(P + ':S09-4:tee', 'TeeWriter::write not found')
        return
    ok = False
    for i, t in b.calls(r'Hasher::write$'):
        og = b.operand_origins(t['args'][1])
        ok = has_origin(og, r'call:.*io::Write::write$') and has_origin(og, r'param:2$')
    hw = call_blocks(b, r'Hasher::write$')
    ww = call_blocks(b, r'io::Write::write$')
    seq, _ = must_pass(b, hw, ww) if hw else (False, None)
    ctx.check(P + ':S09-4:tee-hashes-written-prefix', 'origin', 'TeeWriter::write feeds the hasher exactly buf[..written] after the inner write succeeded',
              ok and seq and bool(guard_switches(b, hw, [r'call:.*io::Write::write$'])), function=b.path)


def error_states(ctx, P):
    """Read/BufRead impls of state-machine enums with an `Error` variant never return Ok from the Error state."""
    n = 0
    for p, r in sorted(ctx.f.bodies.items()):
        if r.get('impl_trait') not in ('std::io::Read', 'std::io::BufRead') or r.get('name') not in ('read', 'fill_buf', 'read_to_end'):
            ctx.functions.discard(p) if p not in ctx.functions else None
            continue
        b = ctx.wrap(r)
        oks = set(ok_exit_blocks(b)) - set(err_exit_blocks(b))
        found = False
        for i, t in b.switches():
            info = enum_switch_info(b, i)
            if not info or 'Error' not in info[1].values():
                continue
            pl = info[2]
            if not (pl['l'] == 1 or any(e == '*' for e in pl['pr'])):
                continue
            for j, _ in b.succ(i):
                if edge_variants(b, i, j) == ['Error']:
                    found = True
                    n += 1
                    region = b.reach_from([j], removed=frozenset([i]))
                    hit = sorted(region & oks)
                    ctx.check('%s:S09-3:error-state:%s' % (P, p), 'R-table', 'the Error state of %s never yields Ok' % p, not hit, function=p,
                              site=site(b, i), missing=[site(b, h) for h in hit] if hit else None)
        if not found:
            ctx.functions.discard(p)
    ctx.floor(P + ':S09-3:floor', 'Read/BufRead impls with an Error-state arm', n, 4)


FILL_GUARANTEES_DATA = {   # reviewed by reading: Ok(()) from the fill step implies `data available` in this non-terminal state
    ('composed::message::reader::compressed::CompressedDataReader<R>', 'Body'): 'fill_inner leaves Body only with a non-empty decompressor buffer (fill_buf of the decompressor returned data), otherwise it moves to Done',
    ('composed::message::reader::literal::LiteralDataReader<R>', 'Body'): 'fill_inner: read < BUFFER_SIZE => Done, else Body with a full buffer',
    ("composed::message::reader::signed_many::SignatureManyReader<'_>", 'Body'): 'fill_inner: Body is kept only after a non-empty read; read == 0 moves to Done after the trailing signatures were read',
    ('crypto::sym::decryptor::StreamDecryptorInner<M, R>', 'Data'): 'fill_inner: a non-last fill leaves BUFFER_SIZE - 22 octets available, the last one moves to Done',
}
TERMINAL = ('Done',)


def stage_buffer_advanced_by_what_was_copied(ctx, P):
    """A reader that hands out `min(buf.len(), stage.remaining())` octets of an internal stage buffer must afterwards advance that
    buffer by exactly what it copied (`copy_to_slice` / `advance(n)`); emptying it (`clear`, `truncate(0)`, a fresh buffer) after a copy
    that may have been partial drops the tail whenever the caller's buffer was the smaller one.  In every `Read::read`, no path leads
    from a copy out of a stage buffer into the caller's buffer to a reset of that same buffer without passing a test of its emptiness."""
    from rules.common import single_defs
    from rules.c19 import _root_place
    n = 0
    for p, r in sorted(ctx.f.bodies.items()):
        if not p.endswith('as std::io::Read>::read') or '::tests::' in p or r['nargs'] < 2:
            continue
        b = ctx.wrap(r)
        defs = single_defs(b)
        outs = []
        for i, t in b.calls(r'\[T\]::copy_from_slice$|slice::<impl \[T\]>::copy_from_slice$|Buf::copy_to_slice$|bytes::BytesMut::copy_to_slice$'):
            if len(t['args']) < 2:
                continue
            dst, src = (t['args'][0], t['args'][1]) if 'copy_from_slice' in t['f']['fn'] else (t['args'][1], t['args'][0])
            if not has_origin(b.operand_origins(dst), r'^param:2$'):
                continue
            rp = _root_place(b, src, defs)
            # follow an index expression `&stage[..n]` back to the stage buffer
            k = 0
            while rp is not None and not rp[1] and k < 4:
                d = defs.get(rp[0])
                if d is not None and d[1].get('k') == 'call' and re.search(r'ops::Index(Mut)?::index(_mut)?$', d[1]['f'].get('fn', '') or '') and d[1]['args']:
                    rp = _root_place(b, d[1]['args'][0], defs)
                    k += 1
                    continue
                break
            if rp is not None:
                outs.append((i, rp))
        if not outs:
            continue
        resets = [(i, _root_place(b, t['args'][0], defs)) for i, t in b.calls(r'(BytesMut|Vec::<.*>|Bytes|VecDeque::<.*>)::(clear|truncate)$') if t['args']]
        for i, rp in outs:
            n += 1
            tests = set(j for j, tt in b.switches() if has_origin(b.switch_origins(j), r'call:.*(Buf::has_remaining|Buf::remaining|::is_empty|::len)$'))
            bad = None
            for j, rq in resets:
                if rq != rp:
                    continue
                nxt = b.blocks[i]['t'].get('t')
                if nxt is not None and b.find_path(nxt, {j}, removed=frozenset(tests)) is not None:
                    bad = j
            ctx.check('%s:S09-9:stage-buffer-advanced-not-reset:%s#%d' % (P, p, [x for x, _ in outs].index(i)), 'R-pair',
                      '%s advances its stage buffer by what it copied out (no reset of a possibly non-empty buffer)' % p[1:].split(' as ')[0].split('::')[-1].split('<')[0],
                      bad is None, function=p, site=site(b, bad) if bad is not None else site(b, i),
                      missing=None if bad is None else 'the buffer copied from at %s is emptied at %s with no emptiness test in between: what did not fit into the caller\'s buffer is lost' % (site(b, i), site(b, bad)))
    ctx.floor(P + ':S09-9:floor', 'copies out of a stage buffer into the caller\'s buffer', n, 8)
    # the same for state machines that take their state apart (`match mem::replace(&mut self.state, Error) { Stage { buffer, .. } => ..`):
    # after a copy out of the LOCAL stage buffer, every way to return either puts that buffer back into the state that is stored,
    # or has tested that it is empty - a transition that leaves the buffer out drops whatever the caller's buffer had no room for
    m = 0
    for p, r in sorted(ctx.f.bodies.items()):
        if not p.endswith('as std::io::Read>::read') or '::tests::' in p or r['nargs'] < 2:
            continue
        b = ctx.wrap(r)
        defs = single_defs(b)
        rets = set(b.returns())
        for i, t in b.calls(r'Buf::copy_to_slice$|bytes::BytesMut::copy_to_slice$'):
            if len(t['args']) < 2 or not has_origin(b.operand_origins(t['args'][1]), r'^param:2$'):
                continue
            rp = _root_place(b, t['args'][0], defs)
            if rp is None or rp[1] or rp[0] <= r['nargs']:
                continue        # a field of self stays where it is
            L = rp[0]
            if not re.match(r'(bytes::)?(BytesMut|Bytes)$|std::vec::Vec<u8>$', b.r['locals'][L]['ty'] or ''):
                continue        # only an OWNED buffer can be dropped; a `&mut` binding into self stays where it is
            m += 1
            keeps = set(x for x, k, st in b.stmts(lambda st: st['r']['k'] == 'agg' and st['r'].get('ak') == 'adt'
                                                   and any('l' in o and _root_place(b, o, defs) == rp for o in st['r']['o'])))
            tests = set(j for j, tt in b.switches() if has_origin(b.switch_origins(j), r'call:.*(Buf::has_remaining|Buf::remaining|::is_empty|::len)$')
                        and any(_root_place(b, c['args'][0], defs) == rp for jj, c in b.calls(r'(Buf::has_remaining|Buf::remaining|::is_empty|::len)$') if c['args'] and c.get('t') == j))
            nxt = b.blocks[i]['t'].get('t')
            wit = b.find_path(nxt, rets, removed=frozenset(keeps | tests)) if nxt is not None else None
            ctx.check('%s:S09-9:stage-buffer-kept-or-empty:%s#%d' % (P, p, m), 'R-pair',
                      'after handing out part of its local stage buffer, %s stores the buffer back into its state (or has found it empty) on every way to return' % p[1:].split(' as ')[0].split('::')[-1].split('<')[0],
                      wit is None, function=p, site=site(b, i), witness=fmt_path(b, wit),
                      missing=None if wit is None else 'a path returns after the copy at %s with the stage buffer neither stored nor tested for emptiness: its unread tail is dropped' % site(b, i))
    ctx.floor(P + ':S09-9:kept:floor', 'copies out of a destructured stage buffer', m, 2)


def zero_result_of_empty_request(ctx, P):
    """A reader that hands (part of) the caller's buffer to an inner reader and takes a 0 result as "this stage is finished" must not
    do so for an EMPTY request: `read(&mut [])` yields 0 from any reader at any time.  In every `Read::read` that passes (a sub-slice of)
    its buffer parameter to a count-returning call and changes its own state on the `== 0` side of a direct test of that count, the
    state change is dominated by a test that involves the length of the caller's buffer (sibling of `Message::read`, F29)."""
    from rules import panics
    from rules.common import single_defs, direct_cmp_switches
    n = 0
    for p, r in sorted(ctx.f.bodies.items()):
        if not p.endswith('as std::io::Read>::read') or '::tests::' in p or r['nargs'] < 2:
            continue
        if not r.get('reachable'):
            continue        # readers of crate-private types are only driven by the crate's own (non-empty) buffers
        b = ctx.wrap(r)
        pulls = []
        for i, t in b.calls():
            rty = t.get('rty') or ''
            if not re.search(r'Result<usize', rty):
                continue
            if any('l' in a and has_origin(b.operand_origins(a), r'^param:2$') and re.match(r"&(?:'\w+ )?mut \[u8\]", b.r['locals'][a['l']]['ty'] or '') for a in t['args'] if not a.get('pr')):
                pulls.append((i, t))
        if not pulls:
            continue
        dom = None
        for i, t in pulls:
            cp = panics.copies_of(b, t['d']['l'])
            for g, op, side in direct_cmp_switches(b, lambda k, v: k == 'place' and 'l' in v and v['l'] in cp, lambda c: c == 0):
                if g not in b.reach_from([i]):
                    continue
                succs = [j for j, _ in b.succ(g)]
                if len(succs) != 2:
                    continue
                # which edge is the "count == 0" edge
                tt = b.blocks[g]['t']
                zero_edge = None
                for j, lab in b.succ(g):
                    truth = (lab[0] == 'v' and lab[1] == 1) or (lab[0] == 'else' and any(v == 0 for v, _ in tt['targets']))
                    if (op == 'Eq' and truth) or (op == 'Ne' and not truth):
                        zero_edge = j
                if zero_edge is None:
                    continue
                other = [j for j in succs if j != zero_edge][0]
                excl = b.reach_from([zero_edge], removed=frozenset([g])) - b.reach_from([other], removed=frozenset([g]))
                changes = [x for x in sorted(excl) for st in b.blocks[x]['s'] if st['d']['l'] == 1 and st['d']['pr'] and st['d']['pr'][0] == '*']
                if not changes:
                    continue
                n += 1
                dom = dom or b.dominators()
                lens = set(x for x, t2 in b.switches() if has_origin(b.switch_origins(x), r'^param:2$') and has_origin(b.switch_origins(x), r'^len$|call:.*(::len|::is_empty)$|op:PtrMetadata'))
                # (a test in front of the pull counts as well: `if into.is_empty() { return Ok(0) }` at the top of the function)
                bad = [x for x in changes if not (lens & set(dom.get(x, ())))]
                ctx.check('%s:S09-8:zero-of-empty-request:%s' % (P, p), 'R-dom',
                          '%s changes its stage on a 0 result of the inner read only behind a test of the length of the caller\'s buffer' % p[1:].split(' as ')[0].split('::')[-1].split('<')[0],
                          not bad, function=p, site=site(b, bad[0]) if bad else site(b, g),
                          missing=None if not bad else 'the state change at %s follows `count == 0` without looking at the request size: read(&mut []) in the middle of the stage ends it and drops what is left' % site(b, bad[0]))
    ctx.floor(P + ':S09-8:floor', 'readers that end a stage on a zero result of an inner read into the caller\'s buffer', n, 1)


def zero_means_end(ctx, P):
    """`read` returning Ok(0) for a non-empty buffer means end of stream to every consumer (io::copy, read_exact, read loops).  A reader
    built as a state enum that, in the arm of a NON-terminal state, hands out min(buf.len(), <stage buffer>.remaining()) right after one
    fill step must not return that value when it is 0: either the value is guarded by an emptiness / `> 0` test whose other edge does
    not return it, or the fill step is reviewed to guarantee data in that state."""
    n = 0
    for p, r in sorted(ctx.f.bodies.items()):
        if not p.endswith('as std::io::Read>::read') or '::tests::' in p:
            continue
        b = ctx.wrap(r)
        ty = p[1:].split(' as ')[0]
        selfty = re.sub(r'<.*', '', ty).split('::')[-1]
        dom = None
        sized = []
        for i, k, s_ in b.stmts(lambda s: s['r']['k'] == 'agg' and s['r'].get('v') == 'Ok' and s['d']['l'] == 0 and not s['d']['pr']):
            if not has_origin(b.operand_origins(s_['r']['o'][0]), r'call:.*(Buf::remaining|::min)$|field:.*data_available$'):
                continue
            dom = dom or b.dominators()
            arms = [vs for a, vs in arm_context(b, i, dom) if a == selfty]
            for vs in arms[-1:]:
                for v in vs:
                    if v not in TERMINAL:
                        sized.append((i, v, s_))
        # a result computed after the match (value merged from the arms) counts for every non-terminal arm that defines it
        if not sized:
            ctx.functions.discard(p)
            continue
        for i, v, s_ in sized:
            n += 1
            key = '%s:S09-6:zero-means-end:%s:%s' % (P, ty, v)
            desc = '%s::read in state %s hands out its stage buffer only when an empty one cannot be mistaken for end of stream' % (selfty, v)
            val = set(x for x in b.operand_origins(s_['r']['o'][0]) if x.startswith(('call:', 'field:')))
            gs = [g for g, t in b.switches() if has_origin(b.switch_origins(g), r'call:.*(has_remaining|is_empty)$|op:(Gt|Ne|Eq|Lt)$')
                  and (val & set(x for x in b.switch_origins(g) if x.startswith(('call:', 'field:'))))]
            gs = [g for g in gs if any(i not in b.reach_from([j]) for j, _ in b.succ(g))]
            ok, _ = must_pass(b, [i], gs) if gs else (False, None)
            if ok:
                ctx.ok(key, 'R-dom', desc + ' (guarded by an emptiness test)', function=p, guards=[site(b, g) for g in gs])
            elif (ty, v) in FILL_GUARANTEES_DATA:
                ctx.ok(key, 'R-dom', desc + ' — reviewed fill postcondition: ' + FILL_GUARANTEES_DATA[(ty, v)], function=p, feature='reviewed')
            else:
                ctx.violation(key, 'R-dom', desc, function=p, site=site(b, i),
                              missing='read() returns min(buf.len(), stage.remaining()) after a single fill step; when stage %s is exhausted (e.g. an empty source right after the prefix) '
                                      'this is Ok(0) although later stages still have output: consumers driven by read() stop early' % v)
    ctx.floor(P + ':S09-6:floor', 'non-terminal state arms of Read impls that size their result from a stage buffer', n, 5)


def partial_buffer_verdicts(ctx, P):
    """armor::reader::read_from_buf hands a parser whatever the source's fill_buf returned and asks for more only on
    nom::Err::Incomplete.  A grammar that wraps line parsers in nom::combinator::complete (turning `need more input` into a hard
    error so that many0 can stop at the first non-matching line) therefore has to restore the Incomplete verdict itself for a last line
    that is not terminated yet; otherwise any source whose first buffer ends inside the armor headers makes dearmoring fail."""
    import callgraph
    drivers = []
    for p, r in sorted(ctx.f.bodies.items()):
        if '::tests::' in p:
            continue
        b = ctx.wrap(r)
        for i, t in b.calls(r'armor::reader::read_from_buf$'):
            a = t['args'][3] if len(t['args']) > 3 else None
            if a is not None and a.get('fn') in ctx.f.bodies:
                drivers.append((p, a['fn']))
    ctx.floor(P + ':S09-7:floor', 'parsers handed to read_from_buf', len(drivers), 3)
    def callees(fn, seen):
        if fn in seen or fn not in ctx.f.bodies:
            return
        seen.add(fn)
        b = ctx.wrap(ctx.f.bodies[fn])
        for i, t in b.calls():
            for cand in (t['f'].get('res'), t['f'].get('fn')):
                if cand in ctx.f.bodies and cand.startswith('armor::reader::'):
                    callees(cand, seen)
            for a in t['args']:
                if isinstance(a, dict) and a.get('fn') in ctx.f.bodies:
                    callees(a['fn'], seen)
        for cr in ctx.f.closures_of(fn):
            callees(cr['path'], seen)
    for parser in sorted(set(x for _, x in drivers)):
        seen = set()
        callees(parser, seen)
        def hard_complete(q):
            # `opt(complete(x))` at the end of a grammar only says "x may be absent" (absence and shortage are both fine): not counted
            qb = ctx.wrap(ctx.f.bodies[q])
            cs = [i for i, t in qb.calls(r'nom::combinator::complete$')]
            opt = set()
            for i, t in qb.calls(r'nom::combinator::opt$'):
                for x in qb.operand_origins(t['args'][0]):
                    m = re.match(r'cs:nom::combinator::complete#(\d+)$', x)
                    if m:
                        opt.add(int(m.group(1)))
            return [i for i in cs if i not in opt]
        uses_complete = sorted(q for q in seen if hard_complete(q))
        # ... restored OUTSIDE every `complete` wrapper: an Incomplete produced by a parser that is itself handed to complete()
        # (or by something it calls) is turned into an error again
        wrapped = set()
        for q in seen:
            qb = ctx.wrap(ctx.f.bodies[q])
            for i, t in qb.calls(r'nom::combinator::complete$'):
                for a in t['args']:
                    if isinstance(a, dict) and a.get('fn') in ctx.f.bodies:
                        callees(a['fn'], wrapped)
        restores = sorted(q for q in seen if q not in wrapped and ctx.wrap(ctx.f.bodies[q]).constructs(r'nom::(internal::)?Err$', 'Incomplete'))
        ctx.check('%s:S09-7:partial-buffer-verdict:%s' % (P, parser), 'R-sib',
                  '%s (driven by read_from_buf on partial buffers) never reports a hard error merely because its input ends inside a line: it uses no `complete` wrapper, or restores Incomplete for an unterminated line' % parser.split('::')[-1],
                  (not uses_complete) or bool(restores), function=parser, table=dict(complete_in=uses_complete, incomplete_restored_in=restores),
                  missing=None if ((not uses_complete) or restores) else '`complete` in %s turns a partially available header line into a parse error: a BufRead whose first buffer is shorter than the armor headers cannot be dearmored' % uses_complete)


def interrupted_safe_fill(ctx, P):
    """The library drives its own generators with std::io::copy (MessageBuilder::to_writer, encrypt_write, SignatureConfig hashing),
    and io::copy retries a read that failed with ErrorKind::Interrupted.  util::fill_buffer accumulates several source reads into a
    local fill: if it returned on Interrupted the octets collected so far would be dropped and the retry would continue behind them
    (a shorter / inconsistent stream reported as success).  It therefore has to retry the source read itself."""
    drivers = sorted(p for p, r in ctx.f.bodies.items() if '::tests::' not in p and ctx.wrap(r).calls(r'std::io::copy$'))
    for d in drivers:
        ctx.functions.add(d)
    b = ctx.body('util::fill_buffer')
    if b is None:
        return
    src = call_blocks(b, r'io::Read::read$')
    sw = [i for i, t in b.switches() if has_origin(b.switch_origins(i), r'call:std::io::Error::kind$') and has_origin(b.switch_origins(i), r'agg:std::io::ErrorKind::Interrupted$|const:.*ErrorKind')]
    loops_back = [g for g in sw if any(any(s_ in b.reach_from([j]) for s_ in src) and not set(b.returns()) <= b.reach_from([j], removed=frozenset(src)) for j, _ in b.succ(g))]
    ctx.check(P + ':S09-5:fill-retries-interrupted', 'R-dom', 'util::fill_buffer retries a source read that failed with ErrorKind::Interrupted (the crate\'s %d io::copy drivers retry such reads; a partial fill must not be dropped)' % len(drivers),
              bool(src) and bool(loops_back) and len(drivers) >= 3, function=b.path, table=drivers,
              missing=None if loops_back else 'no branch on err.kind() == Interrupted that goes back to the source read: an EINTR in the middle of a fill drops the octets already read, io::copy retries, and the builder panics or reports success for a damaged stream')


def fill_loops(ctx, P):
    """An error of the source never flows into an Ok result of a fill loop unless a NEW source call succeeded in between: from the
    Err edge of the branch on the source call's result, no successful exit is reachable without passing a source call again (the
    error is returned, or - for Interrupted - the read is retried)."""
    from rules.common import edge_variants, enum_switch_info
    for path in ('util::fill_buffer', 'util::fill_buffer_bytes'):
        b = ctx.body(path)
        if b is None:
            continue
        src = b.calls(r'io::Read::read$|io::BufRead::fill_buf$')
        srcb = [i for i, t in src]
        oks = ok_exit_blocks(b)
        bad = None
        nerr = 0
        for g, t in b.switches():
            info = enum_switch_info(b, g)
            if not info or not (info[0].endswith('Result') or info[0].endswith('ControlFlow')):
                continue
            if not has_origin(b.switch_origins(g), r'call:.*(io::Read::read|io::BufRead::fill_buf)$'):
                continue
            for j, _ in b.succ(g):
                vs = edge_variants(b, g, j) or []
                if vs and set(vs) <= {'Err', 'Break'}:
                    nerr += 1
                    w = b.find_path(j, set(oks), removed=frozenset(srcb))
                    if w is not None:
                        bad = w
        ctx.check('%s:S09-5:fill-propagates:%s' % (P, path), 'R-dom', '%s: an error of the source call reaches no Ok result except through a new source call (returned, or retried for Interrupted); never turned into a short count' % path,
                  bool(src) and nerr >= 1 and bad is None, function=path, witness=fmt_path(b, bad) if bad else None)


def no_multi_octet_match_on_transient_slice(ctx, P):
    """A function that works on the slice returned by the source's `fill_buf()` sees an arbitrary fragment of
    the stream.  A decision that looks at two or more adjacent octets of that slice (starts_with / ends_with / windows / strip_prefix
    on it) gives a different answer when the fragment boundary falls inside the pattern, unless state is carried — so the result
    depends on how the source delivers data.  Expected count: zero; the per-octet transducers compare single octets."""
    n = 0
    for p, r in sorted(ctx.f.bodies.items()):
        if r.get('derived') or '::tests::' in p:
            continue
        b = ctx.wrap(r)
        if not b.calls(r'BufRead::fill_buf$'):
            ctx.functions.discard(p)
            continue
        n += 1
        bad = []
        for i, t in b.calls(r'\]>::(starts_with|ends_with|windows|strip_prefix|strip_suffix|array_windows|chunks|chunks_exact)$'):
            if t['args'] and has_origin(b.operand_origins(t['args'][0]), r'call:.*BufRead::fill_buf$'):
                bad.append('%s at %s' % (t['f']['fn'].split('::')[-1], site(b, i)))
        ctx.check('%s:transient-slice:%s' % (P, p), 'R-who', '%s takes per-octet decisions on the slice handed out by fill_buf (no multi-octet pattern match that a fragment boundary can split)' % p.split(' as ')[0].lstrip('<'),
                  not bad, function=p, missing=bad or None)
    ctx.floor(P + ':transient-slice:floor', 'functions working on a fill_buf slice', n, 3)


EOF_MAKERS = {
    # io::ErrorKind::UnexpectedEof is read by PacketParser::next / next_ref as "the packet stream ended here" (a clean end when it
    # happens on a header boundary).  Every function that CONSTRUCTS that kind is listed with the reason it cannot be mistaken.
    "composed::message::reader::signed_many::SignatureManyReader::<'a>::fill_inner": 'raised after the trailing packet parser has already ended: no packet parser reads from this reader',
    'crypto::aead::decryptor::StreamDecryptor::<R>::fill_inner': 'fewer than 16 octets in total: raised on the first fill, before any packet was parsed from the plaintext; latched since F48',
    'crypto::sym::decryptor::StreamDecryptorInner::<M, R>::advance_prefix': 'prefix shorter than block size + 2: raised before any plaintext exists; the state is Error afterwards',
    'parsing_reader::BufReadParsing::read_arr': 'the parsing helper: a short read of a fixed-size field IS the end of the stream',
    'parsing_reader::BufReadParsing::take_bytes': 'the parsing helper: a short read of a counted field IS the end of the stream',
    'parsing_reader::BufReadParsing::read_arr_boxed': 'the parsing helper (boxed variant)',
}


def eof_kind_protocol(ctx, P):
    """Cross-module protocol: `PacketParser::next` turns an `UnexpectedEof` met while reading a packet header into `None`.  A reader
    below a packet parser that raises that kind for a *malformed* end (instead of InvalidData / Other) makes the parser end cleanly
    and the caller continue as if the stream were complete.  Who-may-construct rule over the whole crate."""
    makers = {}
    for p, r in sorted(ctx.f.bodies.items()):
        if r.get('derived') or '::tests::' in p:
            continue
        b = ctx.wrap(r)
        cs = b.constructs(r'std::io::ErrorKind$', 'UnexpectedEof')
        if cs:
            makers[p.split('::{closure')[0]] = site(b, cs[0][0])
        else:
            ctx.functions.discard(p)
    consumers = []
    for p, r in sorted(ctx.f.bodies.items()):
        if p.startswith('packet::many::PacketParser') and not r.get('derived'):
            b = ctx.wrap(r)
            if any(has_origin(b.switch_origins(i), r'call:std::io::Error::kind$') for i, t in b.switches()):
                consumers.append(p)
    extra = sorted(set(makers) - set(EOF_MAKERS))
    if not consumers:
        # no packet parser function branches on an error kind any more (see packet_stream_end_at_boundary): nothing reads the kind as an end
        ctx.ok(P + ':eof-kind:makers-reviewed', 'R-who', 'no packet parser function interprets an io::ErrorKind as the end of the stream (%d makers of UnexpectedEof, none can be mistaken)' % len(makers),
               makers=makers, consumers=consumers)
    else:
        ctx.check(P + ':eof-kind:makers-reviewed', 'R-who', 'io::ErrorKind::UnexpectedEof (read by the packet parser as a clean end of the stream) is constructed only by the %d reviewed functions' % len(EOF_MAKERS),
                  not extra and len(makers) >= 4, makers=makers, consumers=consumers,
                  missing=['%s (%s) constructs UnexpectedEof: a packet parser above it would end cleanly' % (p, makers[p]) for p in extra] or None)


def packet_stream_end_at_boundary(ctx, P):
    """A packet stream ends cleanly only BETWEEN two packets.  In the packet parser, a failure of `PacketHeader::try_from_reader`
    (which has already consumed the first octet(s) of a header when it runs out of data) must never be turned into the end of the
    iteration: no `None` result is reachable from the error arm of the header parse.  Otherwise 1..5 octets appended behind a
    complete message - an incomplete header - are accepted as if nothing followed."""
    from rules.common import enum_switch_info, edge_variants
    n = 0
    for p, r in sorted(ctx.f.bodies.items()):
        if 'packet::many::PacketParser' not in p or r.get('derived') or '::tests::' in p:
            continue
        b = ctx.wrap(r)
        cs = b.calls(r'packet::header::PacketHeader::try_from_reader$')
        if not cs or not (b.r['locals'][0]['ty'] or '').startswith('std::option::Option<'):
            ctx.functions.discard(p)
            continue
        none_st = b.stmts(lambda st: st['d']['l'] == 0 and not st['d']['pr'] and st['r']['k'] == 'agg' and st['r'].get('v') == 'None')
        nones = set(i for i, k, st in none_st)
        none_line = {i: st['ln'] for i, k, st in none_st}
        for i, t in cs:
            n += 1
            res = t['d']['l']
            err_starts = []
            for j, tt in b.switches():
                info = enum_switch_info(b, j)
                if info is None or info[2]['l'] != res:
                    continue
                for tgt, _ in b.succ(j):
                    vs = edge_variants(b, j, tgt) or []
                    if 'Err' in vs and 'Ok' not in vs:
                        err_starts.append(tgt)
            reach = b.reach_from(err_starts) if err_starts else set()
            leak = sorted(reach & nones)
            ctx.check('%s:stream-end-at-boundary:%s' % (P, p), 'R-dom', 'a failed packet header parse in %s is reported, never read as the end of the packet stream' % p.split('::')[-1],
                      bool(err_starts) and not leak, function=p, site=('%s:%d' % (b.r['file'], none_line[leak[0]])) if leak else site(b, i),
                      missing=None if (err_starts and not leak) else ('the error arm of the header parse reaches `return None` at line %d: an incomplete header (appended octets, a cut stream) ends the stream cleanly'
                                                                      % none_line[leak[0]] if leak else 'error arm of the header parse not found'))
    ctx.floor(P + ':stream-end-at-boundary:floor', 'header parses in the packet parser', n, 3)


EOF_HELPERS = r'types::packet::PacketLength::try_from_reader$|packet::header::PacketHeader::try_from_reader$|parsing_reader::BufReadParsing::(read_u8|read_be_u16|read_be_u32|read_le_u16|read_arr|read_arr_boxed|take_bytes|read_take)$'


def eof_helper_not_leaked(ctx, P):
    """The parsing helpers report a short read as io::ErrorKind::UnexpectedEof — right at the top of a packet stream (that is how
    the packet parser finds its end), wrong inside a reader of the message stack: there a short read means the *container* is
    truncated, and if the helper's error escapes through `?` a packet parser further up reads it as a clean end.  In `&mut self`
    functions of the reader stack, the result of such a helper is therefore never propagated unmapped."""
    n = 0
    for p, r in sorted(ctx.f.bodies.items()):
        if r.get('derived') or '::tests::' in p or r['kind'] == 'Closure':
            continue
        if not re.match(r'(<)?(composed::message::reader::|crypto::(aead|sym)::decryptor::)', p):
            continue
        if r['nargs'] < 1 or not re.match(r"&(?:'\w+ )?mut ", r['locals'][1]['ty']):
            continue
        b = ctx.wrap(r)
        hs = b.calls(EOF_HELPERS)
        if not hs:
            ctx.functions.discard(p)
            continue
        for k, (i, t) in enumerate(hs):
            n += 1
            d = t['d']
            # where does the helper's Result go: a Try::branch on it (leak) or something else first (map_err, match, is_ok)
            leak = None
            for j, tt in b.calls(r'ops::Try::branch$'):
                if tt['args'] and 'l' in tt['args'][0] and not tt['args'][0]['pr']:
                    og = b.operand_origins(tt['args'][0])
                    direct = tt['args'][0]['l'] == d['l']
                    if direct or (has_origin(og, 'cs:%s#%d$' % (re.escape(p), i)) and not has_origin(og, r'call:.*Result::<.*>::map_err$|call:.*map_err$')):
                        leak = j
            ctx.check('%s:eof-helper-mapped:%s#%d' % (P, p, k + 1), 'R-err', 'the UnexpectedEof of %s inside %s does not escape unmapped (a truncated container is not an end of stream)' % (t['f']['fn'].split('::')[-1], p.split('::')[-1]),
                      leak is None, function=p, site=site(b, i), missing=None if leak is None else 'propagated with `?` at %s: a packet parser above this reader ends cleanly on it' % site(b, leak))
    ctx.floor(P + ':eof-helper-mapped:floor', 'uses of EOF-raising parsing helpers inside the reader stack', n, 1)


def output_buffer_index_guarded(ctx, P):
    """`how the consumer asks for it (any buffer sizes)`: a `Read::read` implementation that writes into the caller's buffer by
    index does so only behind a test that involves that buffer's length (an empty request returns Ok(0); a count read into the buffer
    was found non-zero).  Without it a zero-length request indexes out of bounds."""
    n = 0
    for p, r in sorted(ctx.f.bodies.items()):
        if r.get('derived') or '::tests::' in p or not (r.get('impl_trait', '').endswith('io::Read') and r.get('name') == 'read'):
            continue
        b = ctx.wrap(r)
        sites_ = []
        for i, blk in enumerate(b.blocks):
            t = blk['t']
            if not blk['c'] and t['k'] == 'assert' and str(t.get('ak', '')).startswith('BoundsCheck'):
                og = set()
                for o in t.get('o', []):
                    og |= b.operand_origins(o)
                if has_origin(og, r'^param:2$'):
                    sites_.append(i)
        if not sites_:
            ctx.functions.discard(p)
            continue
        n += 1
        dom = b.dominators()
        gs = [g for g, t in b.switches() if has_origin(b.switch_origins(g), r'^param:2$')]
        bad = [i for i in sites_ if not any(g in dom.get(i, ()) and g != i for g in gs)]
        ctx.check('%s:read:output-index-guarded:%s' % (P, p), 'R-dom', '%s indexes the caller\'s buffer only behind a test involving that buffer\'s length or the count read into it' % p.split(' as ')[0].lstrip('<'),
                  not bad, function=p, sites=[site(b, i) for i in sites_], missing=['%s: no dominating test of the output buffer (a zero-length read request indexes out of bounds)' % site(b, i) for i in bad] or None)
    ctx.floor(P + ':read:output-index:floor', 'Read::read implementations that index their output buffer', n, 2)


def _err_successors(b, c, defs):
    """Blocks entered exactly when the Result produced by the call terminator of block c is an error: the `Err` / `Break` edge of a
    discriminant switch on that result (directly, or through `Try::branch`), or the matching edge of a switch on `is_err()` / `is_ok()`.
    None when the result is not examined in this body (it is handed on as it is)."""
    t = b.blocks[c]['t']
    if t['d']['pr']:
        return None
    carriers = {t['d']['l']}
    out = []
    seen_switch = False
    for _ in range(4):
        grew = False
        for i, blk in enumerate(b.blocks):
            if blk['c']:
                continue
            for s in blk['s']:
                r = s['r']
                if s['d']['pr']:
                    continue
                if r['k'] in ('use', 'ref', 'copyderef'):
                    src = r['o'][0] if r['k'] == 'use' else r['p']
                    if 'l' in src and src['l'] in carriers and not [x for x in src['pr'] if x != '*'] and s['d']['l'] not in carriers:
                        carriers.add(s['d']['l']); grew = True
            tt = blk['t']
            if tt['k'] == 'call' and not tt['d']['pr'] and tt['args'] and 'l' in tt['args'][0] and tt['args'][0]['l'] in carriers \
                    and re.search(r'Try::branch$', tt['f'].get('fn', '') or '') and tt['d']['l'] not in carriers:
                carriers.add(tt['d']['l']); grew = True
        if not grew:
            break
    for i, tt in b.switches():
        info = enum_switch_info(b, i)
        if info and info[2]['l'] in carriers:
            seen_switch = True
            for j, _ in b.succ(i):
                vs = edge_variants(b, i, j) or []
                if vs and set(vs) <= {'Err', 'Break'}:
                    out.append(j)
            continue
        if tt.get('ty') == 'bool' and 'l' in tt['o']:
            d = defs.get(tt['o']['l'])
            if d and d[1].get('k') == 'call' and d[1]['args'] and 'l' in d[1]['args'][0] and d[1]['args'][0]['l'] in carriers:
                m = re.search(r'Result::<.*>::(is_err|is_ok)$', d[1]['f'].get('fn', '') or '')
                if m:
                    seen_switch = True
                    want = 1 if m.group(1) == 'is_err' else 0
                    hit = [bb for v, bb in tt['targets'] if (1 if v else 0) == want]
                    out += hit if hit else [tt['else']]
    return sorted(set(out)) if seen_switch else None


def grown_stage_emptied_on_failed_fill(ctx, P):
    """A reader that hands out whatever its stage buffer holds (`remaining()` octets) and that grows this buffer to full size BEFORE it
    reads the source into it (`buffer.resize(n, 0); fill(source, buffer)?`) must not return an error while the buffer is still grown:
    the next `read` would find a non-empty stage and hand out its raw content (source octets that were never transformed, followed by
    the zero fill) as if it were output, and the stream would then go on.  On every way from the growth to an error exit the stage is
    emptied (`clear`) or the whole state is replaced (`*self = ..` / `mem::replace(self, ..)`); an error that is only handed on is
    followed into the callers within the type, where the error edge of the call has to do the same."""
    from rules.common import single_defs
    from rules.c19 import _root_place
    import callgraph
    n = 0
    edges = callgraph.build(ctx.f)
    callers = {}
    for p, qs in edges.items():
        for q in qs:
            callers.setdefault(q, set()).add(p)

    def repairs_of(b, defs, rp):
        rep = set()
        for i, t in b.calls(r'(BytesMut|Vec::<.*>)::clear$'):
            if t['args'] and _root_place(b, t['args'][0], defs) == rp:
                rep.add(i)
        for i, t in b.calls(r'mem::(replace|take|swap)$'):
            if t['args'] and _root_place(b, t['args'][0], defs) in ((1, ()),):
                rep.add(i)
        for i, k, st in b.stmts(lambda st: st['d']['l'] == 1 and st['d']['pr'] == ['*']):
            rep.add(i)
        return rep

    for p, r in sorted(ctx.f.bodies.items()):
        if '::tests::' in p or r['nargs'] < 1:
            continue
        b0 = ctx.wrap(r)
        grows = b0.calls(r'(BytesMut|Vec::<.*>)::resize$')
        if not grows:
            continue
        defs0 = single_defs(b0)
        for g, t in grows:
            rp = _root_place(b0, t['args'][0], defs0) if t['args'] else None
            if rp is None or rp[0] != 1 or not rp[1]:
                continue            # a local buffer is not seen by the next call
            n += 1
            # level 0: the function that grows the stage
            rep = repairs_of(b0, defs0, rp)
            start = [t.get('t')] if t.get('t') is not None else []
            region = b0.reach_from(start, removed=frozenset(rep))
            bad = sorted(region & set(err_exit_blocks(b0)))
            wit = None
            if bad:
                # followed into the callers: the error edge of every call of this function clears the stage
                work = [(p, 0)]
                seen = {p}
                escaped = []
                while work:
                    q, depth = work.pop()
                    cs = sorted(c for c in callers.get(q, ()) if '::tests::' not in c)
                    if not cs or depth >= 3:
                        escaped.append((q, None))
                        continue
                    for c in cs:
                        bc = ctx.wrap(ctx.f.bodies[c])
                        dc = single_defs(bc)
                        repc = repairs_of(bc, dc, rp)
                        for ci, ct in bc.calls():
                            if (ct['f'].get('res') or ct['f'].get('fn')) != q:
                                continue
                            es = _err_successors(bc, ci, dc)
                            if es is None:
                                # handed on as it is
                                if c not in seen:
                                    seen.add(c); work.append((c, depth + 1))
                                continue
                            reg = bc.reach_from(es, removed=frozenset(repc))
                            if reg & set(bc.returns()):
                                escaped.append((c, site(bc, ci)))
                if escaped:
                    wit = escaped
            ctx.check('%s:S09-10:grown-stage-emptied-on-failed-fill:%s' % (P, p), 'R-pair',
                      'no error leaves %s (or its callers within the type) with the stage buffer still grown to full size and not yet transformed' % p.split('::')[-1],
                      wit is None, function=p, site=site(b0, bad[0]) if bad else site(b0, g), count=len(bad),
                      missing=None if wit is None else 'the error exit at %s is reached from the growth at %s with the buffer neither cleared nor the state replaced%s: the next read hands out the raw buffer'
                      % (site(b0, bad[0]), site(b0, g), '' if not wit[0][1] else ' (also past the call at %s in %s)' % (wit[0][1], wit[0][0].split('::')[-1])))
    ctx.floor(P + ':S09-10:floor', 'stage buffers of self grown before the source is read', n, 2)


def finished_flag_set_after_the_writes(ctx, P):
    """`finish()` of the line writer may be called again after it failed (it is also what `Drop` falls back to): the flag that makes
    a later call return `Ok(())` at once must not be set while a write of the pending tail can still fail - otherwise the first call
    reports the sink error, the retry reports success, and the tail was never written.  In every `finish` that has such a flag, no
    error exit is reachable from the assignment `finished = true`."""
    n = 0
    for p, r in sorted(ctx.f.bodies.items()):
        if '::tests::' in p or r.get('name') != 'finish' or r['nargs'] < 1:
            continue
        b = ctx.wrap(r)
        sets = sorted(set(i for i, k, st in b.stmts(lambda st: st['d']['l'] == 1 and st['d']['pr'] and str(st['d']['pr'][-1]).endswith('.finished')
                                                     and st['r']['k'] == 'use' and 'k' in st['r']['o'][0] and st['r']['o'][0]['k'].get('v') in (True, 1))))
        errs = set(err_exit_blocks(b))
        if not sets or not errs:
            continue
        n += 1
        late = [m for m in sets if b.reach_from([m]) & errs]
        ctx.check('%s:S09-11:finished-after-writes:%s' % (P, p), 'R-seq', '%s marks itself finished only when nothing can fail any more' % '::'.join(p.split('::')[-2:]),
                  not late, function=p, site=site(b, late[0]) if late else None,
                  missing=None if not late else 'an error exit is reachable after `finished = true` (%s): a retried finish() returns Ok without having written the tail' % site(b, late[0]))
    ctx.floor(P + ':S09-11:floor', 'finish() functions with a finished flag and a fallible write', n, 1)
