"""C16 Cleartext signatures (DESIGN §5 C16)."""
import re
from rules.common import rdom, call_blocks, ok_exit_blocks, site, is_pure_forwarder
from core import guard_switches, must_pass, fmt_path, has_origin

EXPLANATION = ("Decides structural clauses of C16, not the behaviour: every function of composed::cleartext that feeds a signer hands it data "
               "derived from the same derivation the verifier hashes (dash_unescape_and_trim + CRLF normalisation of the escaped text); the set "
               "of characters trimmed at line ends is exactly {SP, TAB}; CleartextSignedMessage values are only built from dash_escape output or "
               "the cleartext body parser; dash_escape decides per line on starts_with('-') and has no exit that bypasses the per-line loop; the "
               "parse path validates the Hash-only header rule, the block types, absence of leading and trailing data. Not decided: that the text "
               "survives for all texts, the body terminator search.")
ASSUMPTIONS = ["normalize_lines and str::split_inclusive behave as documented"]

CT = 'composed::cleartext::'
FORM = r'call:composed::cleartext::(signed_form|dash_unescape_and_trim)$'


def run(ctx):
    P = 'C16'
    same_form(ctx, P)
    trim_set(ctx, P)
    framing(ctx, P)
    parse(ctx, P)
    # cleartext verification hashes through the window reader
    from rules import c14
    c14.reader_rules(ctx, P)


def same_form(ctx, P):
    # sign side: every body in composed::cleartext that calls SignatureConfig::sign or invokes a signer closure with text
    n = 0
    for p, r in sorted(ctx.f.bodies.items()):
        if not p.startswith(CT) or '::tests::' in p:
            continue
        b = ctx.wrap(r)
        feeds = []
        for i, t in b.calls(r'SignatureConfig::sign$'):
            feeds.append((i, t['args'][3] if len(t['args']) > 3 else t['args'][-1], 'SignatureConfig::sign'))
        if p.endswith('::new_many'):
            for i, t in b.calls(r'FnOnce::call_once$'):
                feeds.append((i, t['args'][1], 'signer closure'))
        if not feeds:
            ctx.functions.discard(p)
            continue
        for i, a, what in feeds:
            n += 1
            og = b.operand_origins(a)
            ctx.check('%s:S16-1:sign-form:%s' % (P, p), 'R-sib', 'the text handed to %s in %s derives from the verifier\'s form (dash_unescape_and_trim of the escaped text)' % (what, p.split('::')[-1]),
                      has_origin(og, FORM), function=p, site=site(b, i), missing=None if has_origin(og, FORM) else 'signer hashes normalize(text); verifier hashes normalize(trim(unescape(escape(text))))')
        # ... and that form is derived from the ESCAPED text that is stored and later unescaped by the verifier, not from the raw input
        # (signed_form strips one "- " per line: applied to raw text it eats a genuine leading "- ", which the verifier then restores)
        sf = [(i, t) for i, t in b.calls(r'cleartext::signed_form$')]
        if sf:
            bad = [site(b, i) for i, t in sf if not has_origin(b.operand_origins(t['args'][0]), r'call:composed::cleartext::dash_escape$')]
            stored = [i for (i, k, s_) in b.constructs(r'CleartextSignedMessage$') for fn_, o in zip(s_['r']['fields'], s_['r']['o']) if fn_ == 'csf_encoded_text' and has_origin(b.operand_origins(o), r'call:composed::cleartext::dash_escape$')]
            ctx.check('%s:S16-1:sign-form-from-escaped:%s' % (P, p), 'R-sib', 'signed_form() in %s is applied to the dash-escaped text that is stored in the message (the value the verifier unescapes)' % p.split('::')[-1],
                      not bad and bool(stored), function=p, missing=('signed_form applied to a value that is not dash_escape(text) at %s' % ', '.join(bad)) if bad else (None if stored else 'stored csf_encoded_text is not dash_escape(text)'))
    ctx.floor(P + ':S16-1:floor', 'cleartext functions that feed a signer', n, 2)
    # verify side
    for nm in ('verify', 'verify_many'):
        b = ctx.body(CT + 'CleartextSignedMessage::' + nm)
        if b is None:
            continue
        good = False
        for i, t in b.calls(r'Signature::verify$|Fn::call$'):
            for a in t['args']:
                if has_origin(b.operand_origins(a), r'call:composed::cleartext::CleartextSignedMessage::signed_text$|' + FORM):
                    good = True
        ctx.check('%s:S16-1:verify-form:%s' % (P, nm), 'origin', 'CleartextSignedMessage::%s verifies over signed_text()' % nm, good, function=b.path)
    b = ctx.body(CT + 'CleartextSignedMessage::signed_text')
    if b is not None:
        names = [t['f'].get('fn', '') for i, t in b.calls()]
        ctx.check(P + ':S16-1:signed_text-derivation', 'R-who', 'signed_text() is computed by the shared derivation', any(re.search(r'cleartext::(signed_form|dash_unescape_and_trim)$', x) for x in names), function=b.path)
    b = ctx.f.body(CT + 'signed_form')
    if b is not None:
        b = ctx.wrap(b)
        names = [t['f'].get('fn', '') for i, t in b.calls()]
        ctx.check(P + ':S16-1:signed_form-body', 'R-seq', 'signed_form = normalize_lines(dash_unescape_and_trim(text), Crlf)',
                  any(x.endswith('dash_unescape_and_trim') for x in names) and any(x.endswith('normalize_lines') for x in names)
                  and any(has_origin(b.operand_origins(a), r'agg:line_writer::LineBreak::Crlf$') for i, t in b.calls(r'normalize_lines$') for a in t['args']),
                  function=b.path)


def trim_set(ctx, P):
    b = ctx.body(CT + 'dash_unescape_and_trim')
    if b is None:
        return
    tr = b.calls(r'str::<impl str>::trim_end_matches|str::trim_end_matches')
    other = b.calls(r'str::<impl str>::trim_end$|str::<impl str>::trim$|str::trim_end$|str::trim$')
    chars = set()
    for i, t in tr:
        for a in t['args'][1:]:
            for tok in b.operand_origins(a):
                m = re.match(r'const:(\d+):char$', tok)
                if m:
                    chars.add(int(m.group(1)))
    ctx.check(P + ':S16-1:trim-set', 'R-table', 'the characters trimmed from line ends of the signed form are exactly {SP, TAB} (RFC 9580 §7.2)',
              bool(tr) and not other and chars == {32, 9}, function=b.path, table=sorted(chars), missing='trim_end()/trim() strips all Unicode whitespace' if other else None)
    # trimming can expose a CR (content) directly in front of a bare LF line end; the pair must not be read as one CR LF break:
    # either the function tests the trimmed content for a trailing CR, or the line end it appends is the constant CR LF
    cr_test = [i for i, t in b.calls(r'str::<impl str>::ends_with$|str::ends_with$')
               if has_origin(b.operand_origins(t['args'][0]), r'call:.*trim_end_matches$') and any(has_origin(b.operand_origins(a), r'const:13:char$') for a in t['args'][1:])]
    ctx.check(P + ':S16-1:trimmed-cr-kept-as-content', 'R-dom', 'a CR that trimming leaves at the end of a line is kept as content: the trimmed line is tested for a trailing CR before a bare LF line end is appended',
              bool(cr_test), function=b.path, sites=[site(b, i) for i in cr_test],
              missing=None if cr_test else '"a\\r\\t\\n" is trimmed to "a\\r\\n" and then read as a single CR LF break: same signed form as "a\\n"')
    # the CR of a CR LF line ending belongs to the line ENDING: it has to be recognised (a pattern containing CR tested on the line)
    # before the blanks are trimmed - trimming first leaves the blanks in front of the CR in the signed form (`"a \r\n"` must
    # sign as `"a\r\n"`)
    dom = b.dominators()
    def has_cr(a):
        if 'k' in a:
            return a['k'].get('v') == 13 or '\\r' in str(a['k'].get('s', ''))
        return has_origin(b.operand_origins(a), r'const:13:char$')
    crs = [i for i, t in b.calls(r'(ends_with|strip_suffix|rfind|find|trim_end_matches|split_at|rsplit_once)$') if any(has_cr(a) for a in t['args'][1:])
           and not has_origin(b.operand_origins(t['args'][0]), r'call:.*trim_end_matches$')]
    before = [i for i in crs if all(i in dom.get(j, ()) and i != j for j, _ in tr)]
    ctx.check(P + ':S16-1:line-ending-split-before-trim', 'R-seq', 'the CR LF line ending is recognised on the untrimmed line before trailing blanks are trimmed',
              bool(tr) and bool(before), function=b.path, site=site(b, tr[0][0]) if tr else None,
              missing=None if (tr and before) else 'no test for CR on the untrimmed line dominates the trimming: blanks in front of a CR LF line ending stay in the signed form')
    # unescape strips exactly the "- " prefix
    sp = b.calls(r'strip_prefix')
    ctx.check(P + ':S16-1:unescape-prefix', 'R-table', 'dash-unescaping strips a "- " prefix', bool(sp), function=b.path)


def framing(ctx, P):
    # struct literal sites
    n = 0
    for p, r in sorted(ctx.f.bodies.items()):
        b = ctx.wrap(r)
        cons = b.constructs(r'composed::cleartext::CleartextSignedMessage$') if not r.get('derived') else []
        if not cons:
            ctx.functions.discard(p)
            continue
        for i, k, s in cons:
            n += 1
            idx = s['r']['fields'].index('csf_encoded_text')
            og = b.operand_origins(s['r']['o'][idx])
            ctx.check('%s:S16-2:literal:%s' % (P, p), 'R-who', 'CleartextSignedMessage built in %s takes its text from dash_escape or the cleartext body parser' % p.split('::')[-1],
                      has_origin(og, r'call:composed::cleartext::(dash_escape|read_cleartext_body)$'), function=p, site=site(b, i))
    ctx.floor(P + ':S16-2:floor', 'CleartextSignedMessage literal sites', n, 3)
    adt = ctx.f.adts.get('composed::cleartext::CleartextSignedMessage')
    ctx.check(P + ':S16-2:fields-private', 'W(type-level)', 'all fields of CleartextSignedMessage are private (no unescaped body is representable outside the module)',
              adt is not None and all(not fd['pub'] for v in adt['vars'] for fd in v['fields']), table=[fd['n'] for v in (adt or {'vars': []})['vars'] for fd in v['fields'] if fd['pub']])
    b = ctx.body(CT + 'dash_escape')
    if b is not None:
        push = call_blocks(b, r'String::push_str$')
        sw = [i for i, t in b.switches() if has_origin(b.switch_origins(i), r'call:.*str::<impl str>::starts_with|call:.*str::starts_with')]
        ok, wit = must_pass(b, push, sw)
        ctx.check(P + ':S16-2:escape-per-line', 'R-dom', 'every line appended by dash_escape was tested with starts_with(\'-\')', ok and bool(sw) and bool(push), function=b.path)
        nxt = call_blocks(b, r'Iterator::next$')
        rets = b.returns()
        ok2, wit2 = must_pass(b, rets, nxt)
        ctx.check(P + ':S16-2:escape-no-bypass', 'R-dom', 'dash_escape has no exit that bypasses the per-line loop (no unescaped fast path)', ok2 and bool(nxt), function=b.path,
                  witness=fmt_path(b, wit2) if wit2 else None)
        # the escape prefix written is the one the reader strips: the string literals of both functions contain "- " and no other
        # dash-led literal (RFC 9580 §7.2: dash, space)
        def strs(bb):
            out = []
            def walk(x):
                if isinstance(x, dict):
                    if isinstance(x.get('k'), dict) and 's' in x['k'] and x['k']['s'].startswith('"'):
                        out.append(x['k']['s'][1:-1])
                    for v in x.values():
                        walk(v)
                elif isinstance(x, list):
                    for v in x:
                        walk(v)
            walk(bb.blocks)
            walk(bb.r.get('promoted') or [])
            return out
        ub = ctx.body(CT + 'dash_unescape_and_trim')
        w_lit = [x for x in strs(b) if x.startswith('-')]
        r_lit = [x for x in strs(ub) if x.startswith('-')] if ub is not None else []
        strip = [t for i, t in ub.calls(r'str::strip_prefix$')] if ub is not None else []
        ctx.check(P + ':S16-2:escape-prefix-agrees', 'R-table', 'dash_escape prepends "- " and dash_unescape_and_trim strips exactly "- "', w_lit == ['- '] and r_lit == ['- '] and len(strip) == 1,
                  function=b.path, table=dict(writer=w_lit, reader=r_lit))
        dash = any(has_origin(b.operand_origins(a), r'const:45:char$') for i, t in b.calls(r'starts_with') for a in t['args'])
        ctx.check(P + ':S16-2:escape-char', 'R-table', 'the escaped character is \'-\'', dash, function=b.path)


class _Blk:
    def __init__(self, blocks):
        self.blocks = blocks
        self.r = {}


def core_like(b, i):
    """A one-block view (block i with the single-definition temporaries feeding its call) for literal extraction."""
    from rules.common import single_defs
    defs = single_defs(b)
    t = b.blocks[i]['t']
    stmts = []
    for a in t.get('args', []):
        o = a
        for _ in range(5):
            if isinstance(o, dict) and 'l' in o and o['l'] in defs and defs[o['l']][1].get('k') != 'call':
                st = defs[o['l']][1]
                stmts.append(st)
                ops = st['r'].get('o') or ([st['r']['p']] if 'p' in st['r'] else [])
                o = ops[0] if ops else None
            else:
                break
    return _Blk([dict(s=stmts, t=t, c=False)])


def parse(ctx, P):
    b = ctx.body(CT + 'CleartextSignedMessage::from_armor_after_header')
    if b is not None:
        oks = ok_exit_blocks(b)
        rdom(ctx, P + ':S16-3:headers-validated', b, oks, [r'call:composed::cleartext::validate_headers$'], 'parsing succeeds only after validate_headers (error propagated)')
        rdom(ctx, P + ':S16-3:signature-block', b, oks, [r'agg:armor::reader::BlockType::Signature$'], 'the armored part must be a Signature block')
        rdom(ctx, P + ':S16-3:no-trailing-data', b, oks, [r'call:composed::cleartext::has_rest$'], 'non-whitespace trailing data is rejected')
    b = ctx.body(CT + 'CleartextSignedMessage::from_armor_buf')
    if b is not None:
        sinks = call_blocks(b, r'from_armor_after_header$')
        rdom(ctx, P + ':S16-3:cleartext-block', b, sinks, [r'agg:armor::reader::BlockType::CleartextMessage$'], 'the header must be a cleartext-message block')
        rdom(ctx, P + ':S16-3:no-leading-data', b, sinks, [r'call:armor::reader::read_from_buf$', r'field:2$|field:ControlFlow::Continue\.0$'], 'leading data before the cleartext header is rejected')
    b = ctx.body(CT + 'read_cleartext_body')
    if b is not None:
        # text survives: the body scanner decides on the raw buffer and never trims / rewrites it
        XFORM = r'str::(trim\w*|strip_\w+|replace\w*|to_\w+case|split\w*)$|String::(retain|replace_range)$'
        xf = b.calls(XFORM)
        tests = b.calls(r'str::(starts_with|ends_with|rfind|find)$')
        tainted = [i for i, t in tests if has_origin(b.operand_origins(t['args'][0]), r'call:.*(' + XFORM + ')')]
        ctx.check(P + ':S16-3:body-scanned-raw', 'R-who', 'read_cleartext_body finds the end of the text by tests on the raw buffer; it calls no trimming / rewriting string operation (whitespace-only texts and trailing blanks survive)',
                  not xf and not tainted and len(tests) >= 3, function=b.path, site=site(b, (xf or [(None, None)])[0][0]) if xf else None,
                  missing=('calls ' + ', '.join(sorted(set(t['f']['fn'].split('::')[-1] for _, t in xf)))) if xf else None)
        # the only removal is the single line break before the boundary: truncate by 1 or 2, chosen by ends_with("\r\n")
        tr = b.calls(r'String::truncate$')
        ctx.check(P + ':S16-3:one-line-break-removed', 'R-table', 'exactly two truncate sites (CRLF / LF line break before the signature boundary)', len(tr) == 2, function=b.path)
    wb0 = ctx.body(CT + 'CleartextSignedMessage::to_armored_writer')
    hp = ctx.body('armor::reader::hash_header_line')
    if wb0 is not None and hp is not None:
        # Hash headers: the reader accepts `Hash: ` followed by names separated by a bare `,`.  The writer emits one `Hash: ` line per
        # algorithm (the literal is written inside the loop over the hashes) and joins nothing with another separator.
        def lits(bb):
            out = []
            def walk(x):
                if isinstance(x, dict):
                    if isinstance(x.get('k'), dict) and 's' in x['k']:
                        out.append(x['k']['s'])
                    for v in x.values():
                        walk(v)
                elif isinstance(x, list):
                    for v in x:
                        walk(v)
            walk(bb.blocks)
            walk(bb.r.get('promoted') or [])
            return out
        wl = lits(wb0)
        rl = lits(hp)
        import callgraph
        edges = {i: set(j for j, _ in wb0.succ(i)) for i in range(len(wb0.blocks)) if not wb0.blocks[i]['c']}
        inloop = set()
        for c in callgraph.sccs(edges):
            if len(c) > 1 or c[0] in edges.get(c[0], ()):
                inloop |= set(c)
        from rules.common import single_defs
        hw = [i for i, t in wb0.calls(r'Write::write_all$') if any(x == 'b"Hash: "' for x in lits(core_like(wb0, i)))]
        seps = [x for x in wl if x.strip('b"').startswith(',')]
        ctx.check(P + ':S16-3:hash-header-format', 'R-table', 'the writer emits `Hash: <name>` once per algorithm inside its loop and uses no list separator the reader would not accept (reader: `Hash: ` and bare `,`)',
                  bool(hw) and all(i in inloop for i in hw) and not seps and 'b"Hash: "' in wl and any(x in ('"Hash: "', 'b"Hash: "') for x in rl) and any(x.strip('b"') == ',' for x in rl),
                  function=wb0.path, table=dict(writer=[x for x in wl if 'Hash' in x or ',' in x], reader=[x for x in rl if 'Hash' in x or ',' in x]),
                  missing=('separator literal %s in the writer' % seps) if seps else None)
    hb = ctx.body(CT + 'has_rest')
    if hb is not None:
        # the trailing-data scan judges only the octets the read returned: the slice it iterates over is cut at the read count,
        # and it keeps reading until the source is exhausted
        from rules.common import single_defs, resolve_value
        defs = single_defs(hb)
        reads = call_blocks(hb, r'io::Read::read$')
        cut = False
        for i, t in hb.calls(r'ops::Index::index$|slice::<impl \[T\]>::get$|\[T\]::get$'):
            kk, rv = resolve_value(hb, t['args'][1], defs)
            if kk == 'rv' and rv['k'] == 'agg' and rv['o'] and has_origin(hb.operand_origins(rv['o'][-1]), r'call:.*io::Read::read$'):
                cut = True
        whole = [i for i, t in hb.calls(r'slice::<impl \[T\]>::iter$|\[T\]::iter$') if not has_origin(hb.operand_origins(t['args'][0]), r'call:.*(ops::Index::index|\[T\]>::get|\[T\]::get)$')]
        import callgraph
        edges = {i: set(j for j, _ in hb.succ(i)) for i in range(len(hb.blocks)) if not hb.blocks[i]['c']}
        looped = any((len(c) > 1 or c[0] in edges.get(c[0], ())) and set(c) & set(reads) for c in callgraph.sccs(edges))
        ctx.check(P + ':S16-3:trailing-scan-only-read-octets', 'R-dom', 'has_rest inspects buf[..read] (not the stale remainder of its buffer) and reads until the source is exhausted',
                  cut and not whole and looped and bool(reads), function=hb.path,
                  missing=None if (cut and not whole and looped) else 'the whole 64-octet buffer is scanned after a short read: the zero / stale tail counts as trailing data, so 1..63 trailing line breaks are rejected and 64 accepted')
    wb = ctx.body(CT + 'CleartextSignedMessage::to_armored_writer')
    rb = ctx.body(CT + 'read_cleartext_body')
    if wb is not None and rb is not None:
        # the reader removes CR LF when the body ends with it, else LF: a text whose last octet is CR followed by the writer's bare LF
        # is indistinguishable from a text without it.  The writer therefore has to choose the terminator by the last octet of the text.
        reader_crlf = [i for i, t in rb.calls(r'str::ends_with$')]
        body_w = [i for i, t in wb.calls(r'Write::write_all$') if has_origin(wb.operand_origins(t['args'][1]), r'field:CleartextSignedMessage\.csf_encoded_text$')]
        sel = [i for i, t in wb.switches() if has_origin(wb.switch_origins(i), r'field:CleartextSignedMessage\.csf_encoded_text$')
               and has_origin(wb.switch_origins(i), r'call:.*(ends_with|::last|strip_suffix)$') and not has_origin(wb.switch_origins(i), r'call:std::ops::Try::branch$')]
        ctx.check(P + ':S16-3:body-terminator-unambiguous', 'R-sib', 'the line break written after the text is chosen by the last octet of the text, because the reader strips CR LF as one terminator '
                  '(a text ending in CR must not be followed by a bare LF)', bool(reader_crlf) and bool(body_w) and bool(sel), function=wb.path,
                  missing=None if sel else 'to_armored_writer appends LF unconditionally: text "abc\\r" is read back as "abc" and its signature no longer verifies')
    b = ctx.body(CT + 'validate_headers')
    if b is not None:
        oks = ok_exit_blocks(b)
        gs = guard_switches(b, oks, [r'call:.*PartialEq::(eq|ne)$'])
        hs = guard_switches(b, oks, [r'call:.*str::<impl str>::parse|call:.*FromStr::from_str|call:.*str::parse'])
        ctx.check(P + ':S16-3:hash-only', 'R-dom', 'validate_headers rejects every header other than Hash and every unparsable hash name', bool(gs) and bool(hs), function=b.path)
