"""Reusable rule kinds on top of engine/core.py (R-dom, R-who, pure-forwarder, all-ok-exits)."""
import re
import core
from core import guard_switches, must_pass, fmt_path, has_origin


def site(b, i):
    return '%s:%d' % (b.r['file'], b.line(i))


def rdom(ctx, key, b, sink_blocks, require, desc, rule='R-dom', start=0, mode='single'):
    """Must-pass-through.

    mode='single': every path from entry to a sink block passes a switch whose condition derives from *all*
    `require` origin specs and that has an edge which cannot reach the sink.
    mode='each': for compound short-circuit conditions (`(a && b) || (c && d)` lowers to one switch per
    comparison): for every spec separately, every path passes a switch deriving from it, and at least one of
    those switches has a rejecting edge."""
    if b is None:
        return False
    sink_blocks = sorted(set(sink_blocks))
    if not sink_blocks:
        ctx.violation(key, rule, desc + ' — sink not found (anchor missing, clause cannot be established)',
                      function=b.path, fail_closed=True)
        return False
    detail = dict(function=b.path, sinks=[site(b, s) for s in sink_blocks], require=require, mode=mode)
    if mode == 'single':
        gs = guard_switches(b, sink_blocks, require)
        gblocks = [g for g, _ in gs]
        ok, wit = must_pass(b, sink_blocks, gblocks, start=start)
        detail['guards'] = [site(b, g) for g in gblocks]
        if not ok and not gblocks:
            detail['missing'] = 'no branch whose condition derives from %s with a rejecting edge exists before the sink' % (require,)
    else:
        ok, wit = True, None
        detail['guards'] = []
        for spec in require:
            cand = [i for i, t in b.switches() if has_origin(b.switch_origins(i), spec)]
            rej = guard_switches(b, sink_blocks, [spec])
            ok1, wit1 = must_pass(b, sink_blocks, cand, start=start)
            detail['guards'] += [site(b, g) for g in cand]
            if not ok1:
                ok, wit = False, wit1
                detail['missing'] = 'a path to the sink avoids every branch deriving from %s' % spec
                break
            if not rej:
                ok, wit = False, b.find_path(start, set(sink_blocks))
                detail['missing'] = 'no branch deriving from %s can reject (all its edges reach the sink)' % spec
                break
    if ok:
        ctx.ok(key, rule, desc, **detail)
    else:
        detail['witness'] = fmt_path(b, wit)
        detail['site'] = site(b, wit[-1]) if wit else None
        ctx.violation(key, rule, desc, **detail)
    return ok


def call_blocks(b, rx, pred=None):
    return [i for i, _ in b.calls(rx, pred)]


def ok_exit_blocks(b):
    """Blocks that produce a successful result in `_0`: an `Ok`/`Some` aggregate assigned to _0, a call
    whose destination is _0 and that is not `from_residual`, or a plain move into _0 (conservative)."""
    out = []
    for i, blk in enumerate(b.blocks):
        if blk['c']:
            continue
        for s in blk['s']:
            if s['d']['l'] == 0 and not s['d']['pr']:
                r = s['r']
                if r['k'] == 'agg' and r.get('ak') == 'adt':
                    if r['v'] in ('Ok',):
                        out.append(i)
                    elif r['v'] == 'Some':
                        og = b.operand_origins(r['o'][0]) if r['o'] else set()
                        is_err = any(t.endswith('result::Result::Err') for t in og if t.startswith('agg:'))
                        is_ok = any(t.endswith('result::Result::Ok') for t in og if t.startswith('agg:'))
                        if not (is_err and not is_ok):
                            out.append(i)
                elif r['k'] == 'agg' and r.get('ak') == 'tuple':
                    out.append(i)
                elif r['k'] in ('use', 'cast', 'bin', 'un') :
                    out.append(i)
        t = blk['t']
        if t['k'] == 'call' and t['d']['l'] == 0 and not t['d']['pr']:
            name = t['f'].get('fn', '')
            if not name.endswith('FromResidual::from_residual'):
                out.append(i)
    return sorted(set(out))


def err_exit_blocks(b):
    out = []
    for i, blk in enumerate(b.blocks):
        if blk['c']:
            continue
        for s in blk['s']:
            if s['d']['l'] == 0 and not s['d']['pr'] and s['r']['k'] == 'agg' and s['r'].get('v') == 'Err':
                out.append(i)
            if s['d']['l'] == 0 and not s['d']['pr'] and s['r']['k'] == 'agg' and s['r'].get('v') == 'Some' and s['r']['o']:
                og = b.operand_origins(s['r']['o'][0])
                if any(t.endswith('result::Result::Err') for t in og if t.startswith('agg:')) and not any(t.endswith('result::Result::Ok') for t in og if t.startswith('agg:')):
                    out.append(i)
        t = blk['t']
        if t['k'] == 'call' and t['d']['l'] == 0 and t['f'].get('fn', '').endswith('FromResidual::from_residual'):
            out.append(i)
    return sorted(set(out))


def is_pure_forwarder(b, callee_rx, allow=()):
    """The body consists of exactly one non-trivial call, matching callee_rx, whose result is returned
    (possibly via `?` + Ok re-wrap is NOT accepted: pure pass-through only), ignoring auto-deref /
    AsRef / Deref / clone-free accessor calls listed in `allow`."""
    rx = re.compile(callee_rx)
    calls = b.calls()
    main = []
    for i, t in calls:
        name = t['f'].get('fn', '')
        full = t['f'].get('res', '') or ''
        if rx.search(name) or rx.search(full):
            main.append((i, t))
            continue
        if any(re.search(a, name) for a in allow) or re.search(r'::Deref::deref$|::AsRef::as_ref$|::Borrow::borrow$', name):
            continue
        return False, 'extra call %s' % name
    if len(main) != 1:
        return False, '%d forwarding calls' % len(main)
    i, t = main[0]
    if not (t['d']['l'] == 0 and not t['d']['pr']):
        return False, 'result of the forwarded call is not returned unchanged'
    # no switches (no conditional behaviour) besides none
    if b.switches():
        return False, 'conditional control flow in forwarder'
    return True, ''


def const_args(t):
    """Scalar constant arguments of a call terminator as list (None for non-constants)."""
    out = []
    for a in t['args']:
        if 'k' in a and 'v' in a['k']:
            out.append(a['k']['v'])
        else:
            out.append(None)
    return out


def enum_switch_values(b, i):
    """For a switch on a discriminant: map the explicit target values to variant names when the
    discriminant rvalue is found in the same block."""
    t = b.blocks[i]['t']
    o = t['o']
    names = {}
    if 'l' in o:
        for s in b.blocks[i]['s']:
            if s['d']['l'] == o['l'] and s['r']['k'] == 'discr' and 'enum' in s['r']:
                names = {v: n for v, n in s['r']['enum']['vars']}
    return names


def single_defs(b):
    """local -> (block, statement or call terminator) for locals with exactly one definition."""
    defs = {}
    cnt = {}
    for i, blk in enumerate(b.blocks):
        if blk['c']:
            continue
        for s in blk['s']:
            if not s['d']['pr']:
                l = s['d']['l']
                cnt[l] = cnt.get(l, 0) + 1
                defs[l] = (i, s)
        t = blk['t']
        if t['k'] == 'call' and not t['d']['pr']:
            l = t['d']['l']
            cnt[l] = cnt.get(l, 0) + 1
            defs[l] = (i, t)
    return {l: d for l, d in defs.items() if cnt[l] == 1}


def resolve_value(b, o, defs, depth=6):
    """Follow copies/moves/casts of single-definition temporaries to the defining rvalue/call.
    Returns ('const', v) | ('call', terminator) | ('rv', rvalue) | ('place', operand) ."""
    for _ in range(depth):
        if 'k' in o:
            k = o['k']
            if 'v' in k:
                return ('const', k['v'])
            return ('constx', k)
        if 'l' not in o or o['pr']:
            return ('place', o)
        d = defs.get(o['l'])
        if d is None:
            return ('place', o)
        x = d[1]
        if 'k' in x and x['k'] == 'call':
            return ('call', x)
        r = x['r']
        if r['k'] in ('use',) or (r['k'] == 'cast' and r['ck'] in ('IntToInt', 'PointerCoercion', 'Transmute')):
            o = r['o'][0]
            continue
        return ('rv', r)
    return ('place', o)


def direct_cmp_switches(b, side_pred, const_pred=None):
    """Switch blocks whose operand is defined (in single-assignment temporaries) as a comparison one of whose
    sides satisfies side_pred(kind, value) and, if const_pred is given, whose other side is a constant satisfying it.
    kind/value are those returned by resolve_value."""
    defs = single_defs(b)
    out = []
    for i, t in b.switches():
        kind, v = resolve_value(b, t['o'], defs)
        if kind == 'rv' and v['k'] == 'un' and v['op'] == 'Not':
            kind, v = resolve_value(b, v['o'][0], defs)
        if kind != 'rv' or v['k'] != 'bin' or v['op'] not in ('Lt', 'Le', 'Gt', 'Ge', 'Eq', 'Ne'):
            continue
        sides = [resolve_value(b, o, defs) for o in v['o']]
        for a, c in ((0, 1), (1, 0)):
            if side_pred(*sides[a]) and (const_pred is None or (sides[c][0] == 'const' and const_pred(sides[c][1]))):
                out.append((i, v['op'], a))
                break
    return out


def is_call_to(rx):
    r = re.compile(rx)
    def p(kind, v):
        return kind == 'call' and (r.search(v['f'].get('fn', '')) or r.search(v['f'].get('res', '') or ''))
    return p


def enum_switch_info(b, i):
    """For a switch block on an enum discriminant: (adt path, {value: name}, place) else None."""
    t = b.blocks[i]['t']
    if t['k'] != 'switch' or 'l' not in t['o']:
        return None
    for s in b.blocks[i]['s']:
        if s['d']['l'] == t['o']['l'] and not s['d']['pr'] and s['r']['k'] == 'discr' and 'enum' in s['r']:
            return (s['r']['enum']['adt'], {v: n for v, n in s['r']['enum']['vars']}, s['r']['p'])
    return None


def edge_variants(b, i, tgt):
    """Variant names selected by the edge(s) from enum switch i to block tgt."""
    info = enum_switch_info(b, i)
    if info is None:
        return None
    adt, names, _ = info
    t = b.blocks[i]['t']
    explicit = {v for v, _ in t['targets']}
    out = []
    for v, bb in t['targets']:
        if bb == tgt:
            out.append(names.get(v, '#%d' % v))
    if t['else'] == tgt:
        out += [n for v, n in names.items() if v not in explicit]
    return out


def arm_context(b, x, dom=None):
    """Enum-variant context of block x: for every enum switch that dominates x and has exactly one successor that
    dominates x (or is x), the variants selected by that edge.  Returns list of (adt short name, [variants])."""
    dom = dom or b.dominators()
    ctx = []
    if x not in dom:
        return ctx
    for i in sorted(dom[x]):
        if i == x:
            continue
        info = enum_switch_info(b, i)
        if info is None:
            continue
        succs = sorted(set(j for j, _ in b.succ(i)))
        # edges of the switch from which x is reachable without coming back through the switch
        through = [j for j in succs if j == x or x in b.reach_from([j], removed=frozenset([i]))]
        if not through or len(through) == len(succs):
            continue
        vs = []
        for j in through:
            for v in edge_variants(b, i, j) or []:
                if v not in vs:
                    vs.append(v)
        ctx.append((info[0].split('::')[-1], vs))
    # `matches!(e, pat)` / `if let` lowered through a bool: the arms of an enum switch assign a constant to one bool local and
    # rejoin at a switch on that local; x behind one edge of the bool switch is in the arms that assigned that truth value
    for jn in sorted(dom[x]):
        if jn == x:
            continue
        t = b.blocks[jn]['t']
        if t['k'] != 'switch' or t.get('ty') != 'bool' or 'l' not in t['o'] or t['o']['pr']:
            continue
        succs = sorted(set(j for j, _ in b.succ(jn)))
        through = [j for j in succs if j == x or x in b.reach_from([j], removed=frozenset([jn]))]
        if len(through) != 1 or len(succs) != 2:
            continue
        truth = 0 if any(v == 0 and bb == through[0] for v, bb in t['targets']) else 1
        L = t['o']['l']
        assigns = []
        okdefs = True
        for bi, blk in enumerate(b.blocks):
            for s_ in blk['s']:
                if s_['d']['l'] == L and not s_['d']['pr']:
                    o = s_['r'].get('o', [{}])[0] if s_['r']['k'] == 'use' else None
                    if o is None or 'k' not in o or o['k'].get('ty') != 'bool':
                        okdefs = False
                    else:
                        assigns.append((bi, 1 if o['k'].get('v') else 0))
            tt = blk['t']
            if tt['k'] == 'call' and tt['d']['l'] == L and not tt['d']['pr']:
                okdefs = False
        if not okdefs or len(assigns) < 2:
            continue
        preds = b.preds()
        sw = set()
        for bi, _ in assigns:
            ps_ = preds.get(bi, []) if isinstance(preds, dict) else preds[bi]
            sw |= set(ps_)
        if len(sw) != 1:
            continue
        i = next(iter(sw))
        info = enum_switch_info(b, i)
        if info is None or i not in dom[x]:
            continue
        vs = []
        for bi, tv in assigns:
            if tv == truth:
                for v in edge_variants(b, i, bi) or []:
                    if v not in vs:
                        vs.append(v)
        if vs and not any(a == info[0].split('::')[-1] and set(v0) == set(vs) for a, v0 in ctx):
            ctx.append((info[0].split('::')[-1], vs))
    return ctx
    for i in sorted(dom[x]):
        if i == x:
            continue
        info = enum_switch_info(b, i)
        if info is None:
            continue
        succs = set(j for j, _ in b.succ(i))
        through = [j for j in succs if j == x or j in dom[x]]
        if len(through) != 1:
            continue
        vs = edge_variants(b, i, through[0])
        ctx.append((info[0].split('::')[-1], vs))
    return ctx


def accept_edge(b, sw, tgt, can):
    """Does taking edge sw->tgt keep the sink reachable *through a true bool-phi*?  For `matches!` the
    switch arms assign a bool and rejoin; follow to the bool switch."""
    # direct: tgt cannot reach sink -> reject
    if tgt not in can:
        return False
    # bool-phi: tgt block assigns const bool to a local then joins a switch on it
    blk = b.blocks[tgt]
    for s in blk['s']:
        r = s['r']
        if r['k'] == 'use' and 'k' in r['o'][0] and r['o'][0]['k'].get('ty') == 'bool' and not s['d']['pr']:
            val = r['o'][0]['k'].get('v')
            loc = s['d']['l']
            # find the switch on loc downstream
            j = tgt
            for _ in range(4):
                t = b.blocks[j]['t']
                if t['k'] == 'goto':
                    j = t['t']
                    continue
                if t['k'] == 'switch':
                    val2 = None
                    if t['o'].get('l') == loc:
                        val2 = val
                    else:
                        # `!matches!(..)`: the switch operand is Not(loc) computed in this block
                        for s2 in b.blocks[j]['s']:
                            if s2['d']['l'] == t['o'].get('l') and s2['r']['k'] == 'un' and s2['r']['op'] == 'Not' and s2['r']['o'][0].get('l') == loc:
                                val2 = 1 - val
                    if val2 is None:
                        break
                    nxt = None
                    for v, bb in t['targets']:
                        if v == val2:
                            nxt = bb
                    if nxt is None:
                        nxt = t['else']
                    return nxt in can
                break
    return True


