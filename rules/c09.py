"""C09 Streaming transparency (DESIGN §5 C09) — error clause only."""
from rules import stream

EXPLANATION = ("Decides the error-discipline clauses of C09, not schedule independence: every call site of the crate whose Result carries an "
               "io::Error / crate Error is propagated, converted, stored or inspected (discard forms: unused, .ok()/.is_ok()/unwrap_or*, a match "
               "whose Err arm ignores the payload and continues, an io::Result whose Err edge reaches Ok without a kind() test) unless listed by "
               "exact key with a reason; writers whose Drop flushes (LineWriter, Base64Encoder) are finished explicitly with the error propagated "
               "on every path to Ok; reader state machines never return Ok from their Error state; the fill loops return Ok only after a "
               "successful source call; TeeWriter hashes exactly what the sink accepted. staged readers return a possibly empty stage buffer only under an emptiness guard or after a reviewed fill step (zero means end). "
               "Not decided: independence of read/consume schedules.")
ASSUMPTIONS = ["trait-object and generic callees behave as their trait contract says", "dependency crates propagate their own I/O errors"]


def run(ctx):
    P = 'C09'
    stream.r_err(ctx, P)
    stream.r_pair(ctx, P)
    stream.wrapper_finishers(ctx, P)
    stream.error_states(ctx, P)
    from rules import c03
    c03.sticky_errors(ctx, P)
    stream.tee_writer(ctx, P)
    stream.fill_loops(ctx, P)
    stream.interrupted_safe_fill(ctx, P)
    stream.partial_buffer_verdicts(ctx, P)
    stream.zero_means_end(ctx, P)
    stream.eof_kind_protocol(ctx, P)
    stream.packet_stream_end_at_boundary(ctx, P)
    stream.zero_result_of_empty_request(ctx, P)
    stream.stage_buffer_advanced_by_what_was_copied(ctx, P)
    stream.grown_stage_emptied_on_failed_fill(ctx, P)
    stream.finished_flag_set_after_the_writes(ctx, P)
    stream.eof_helper_not_leaked(ctx, P)
    stream.output_buffer_index_guarded(ctx, P)
    stream.no_multi_octet_match_on_transient_slice(ctx, P)
    from rules import c14
    c14.hasher_rules(ctx, P)
    c14.check_reader_rules(ctx, P)
    # every consumer path of Message ends through the trailing-data check (read / read_to_end / fill_buf agree)
    from rules import c03
    c03.trailing(ctx, P)
