"""C08 Secret-key locking (DESIGN §5 C08)."""
import re
import core
from rules.common import (rdom, call_blocks, ok_exit_blocks, site, arm_context, enum_switch_info, edge_variants, accept_edge)
from rules.tables import s2k_usage_tables
from core import guard_switches, must_pass, fmt_path, has_origin

EXPLANATION = ("Decides structural clauses of C08, not the behaviour: the usage-octet tables (octet -> S2kUsage -> S2kParams variant "
               "constructed by the parser -> octet) compose to the identity; in EncryptedSecretParams::unlock every arm hands key material "
               "to a parser only after its integrity check (SHA-1 compare for Cfb, AEAD tag for Aead, 16-bit checksum parser for the "
               "legacy/malleable arms) and uses the parser variant matching whether a checksum is carried; the Argon2/v6 restrictions "
               "dominate key derivation; the AEAD associated data binds the public key; lock and unlock share one derivation. "
               "Not decided: that the right password restores the exact material, or that any bit flip is detected."
               ' Also (shared with C12): S2K derivation clauses and the packet type id octet 0xC0|tag in HKDF info and associated data of AEAD-protected secret keys.')
ASSUMPTIONS = ["checksum::calculate_sha1, AeadAlgorithm::decrypt_in_place, StringToKey::derive_key do what their names say"]

U = 'types::params::encrypted_secret::EncryptedSecretParams::unlock'


def run(ctx):
    P = 'C08'
    s2k_usage_tables(ctx, P)
    unlock(ctx, P)
    lock(ctx, P)
    lock_unlock_agree(ctx, P)
    tag_binding(ctx, P)
    from_slice(ctx, P)
    # the password-to-key derivation hashes the whole password (shared with C12): a truncated or mis-ordered S2K input lets other passwords unlock
    from rules import c12
    c12.s2k(ctx, P)
    c12.secret_key_aead(ctx, P)
    # the checksum helpers the unlock arms rely on really compare (shared with C18)
    from rules import c18
    c18.checksum_helpers(ctx, P)
    # a locked key that was serialised is parsed again: serialiser, length query and parser place the v6-only octets at the same places,
    # and a check of the cumulative count octet counts what was read (shared with C05)
    from rules import c05
    c05.version_conditional_fields(ctx, P)
    c05.cumulative_count_check_agrees(ctx, P)
    c05.s2k_specifier_length_agrees(ctx, P)
    c05.unprotected_checksum_on_every_ok_path(ctx, P)
    from rules import c12
    c12.derived_key_sized_by_the_cipher_in_use(ctx, P)


def unlock(ctx, P):
    b = ctx.body(U)
    if b is None:
        return
    dom = b.dominators()
    # final match: arm -> parser called
    parsers = b.calls(r'PlainSecretParams::try_from_reader(_no_checksum)?$')
    ctx.floor(P + ':unlock:floor', 'key-material parser calls in unlock', len(parsers), 4)
    table = {}
    for i, t in parsers:
        arms = [vs for adt, vs in arm_context(b, i, dom) if adt == 'S2kParams']
        arm = tuple(min(arms, key=len)) if arms else ()
        table[arm] = t['f']['fn'].split('::')[-1]
    want = {('LegacyCfb',): 'try_from_reader', ('MalleableCfb',): 'try_from_reader', ('Cfb',): 'try_from_reader_no_checksum', ('Aead',): 'try_from_reader_no_checksum'}
    ctx.check(P + ':unlock:parser-per-arm', 'R-table',
              'each S2K usage arm parses with the variant matching its plaintext layout (16-bit checksum carried only by legacy/malleable CFB)',
              table == want, function=b.path, table={'/'.join(k): v for k, v in table.items()})
    for i, t in parsers:
        arms = [vs for adt, vs in arm_context(b, i, dom) if adt == 'S2kParams']
        arm = min(arms, key=len)[0] if arms else '?'
        if arm == 'Cfb':
            rdom(ctx, P + ':unlock:cfb-sha1-checked', b, [i], [r'call:.*checksum::calculate_sha1$', r'call:.*PartialEq::ne$|call:.*PartialEq::eq$|call:.*ct_eq$'],
                 'usage 254: material is parsed only after the SHA-1 comparison (rejecting)')
            from rules.common import direct_cmp_switches, is_call_to
            dg = [g for g, op, _ in direct_cmp_switches(b, is_call_to(r'BytesMut::len$|::len$'), lambda v: v == 20)]
            ok, wit = must_pass(b, [i], dg)
            ctx.check(P + ':unlock:cfb-len20', 'R-dom', 'usage 254: plaintext shorter than the SHA-1 is rejected before splitting', ok and bool(dg), function=b.path,
                      guards=[site(b, g) for g in dg])
        if arm == 'Aead':
            rdom(ctx, P + ':unlock:aead-tag-checked', b, [i], [r'call:.*AeadAlgorithm::decrypt_in_place$'],
                 'usage 253: material is parsed only after AEAD decryption succeeded (error propagated)')
    for i, t in b.calls(r'AeadAlgorithm::decrypt_in_place$'):
        ad = b.operand_origins(t['args'][4])
        key = b.operand_origins(t['args'][2])
        ctx.check(P + ':unlock:aead-ad-from-usage-aead', 'origin', 'AEAD key and associated data come from s2k_usage_aead(derived key, tag, public key, cipher, mode)',
                  has_origin(ad, r'call:.*s2k_usage_aead$') and has_origin(key, r'call:.*s2k_usage_aead$') and has_origin(key, r'call:.*StringToKey::derive_key$'),
                  function=b.path, site=site(b, i))
    for i, t in b.calls(r's2k_usage_aead$'):
        ctx.check(P + ':unlock:usage-aead-gets-pubkey', 'origin', 's2k_usage_aead receives the public key (param 3) and the caller-provided packet tag',
                  has_origin(b.operand_origins(t['args'][2]), r'param:3$') and has_origin(b.operand_origins(t['args'][1]), r'param:4$'), function=b.path, site=site(b, i))
    # restrictions dominate derivation
    derive = call_blocks(b, r'StringToKey::derive_key$|Digest::digest$')
    ctx.floor(P + ':unlock:derive-floor', 'key derivation sites in unlock', len(derive), 4)
    # Argon2 only with AEAD: a rejecting branch on StringToKey discriminant inside the Cfb|MalleableCfb arm
    arg = []
    for i, t in b.switches():
        info = enum_switch_info(b, i)
        if info and info[0].endswith('StringToKey'):
            ac = arm_context(b, i, dom)
            arms = [vs for adt, vs in ac if adt == 'S2kParams']
            if arms and set(min(arms, key=len)) == {'Cfb', 'MalleableCfb'}:
                can = b.can_reach(set(derive))
                rej = [j for j, _ in b.succ(i) if not accept_edge(b, i, j, can) and 'Argon2' in (edge_variants(b, i, j) or [])]
                if rej:
                    arg.append(i)
    cfb_derive = [d for d in derive if any(adt == 'S2kParams' and set(vs) <= {'Cfb', 'MalleableCfb'} for adt, vs in arm_context(b, d, dom))]
    ctx.check(P + ':unlock:argon2-only-aead', 'R-dom', 'Argon2 with a CFB usage is rejected before any key derivation', len(arg) >= 1 and len(cfb_derive) >= 2,
              function=b.path, guards=[site(b, g) for g in arg])
    # v6: version branch then usage in {Aead,Cfb}, no weak s2k, no weak hash
    v6 = [i for i, t in b.switches() if has_origin(b.switch_origins(i), r'call:.*KeyDetails::version$') and has_origin(b.switch_origins(i), r'agg:.*KeyVersion::V6$')]
    ok, wit = must_pass(b, derive, v6)
    ctx.check(P + ':unlock:v6-branch-dominates', 'R-dom', 'every derivation is preceded by the key-version == V6 branch', ok and bool(v6), function=b.path)
    weak = guard_switches(b, derive, [r'call:.*StringToKey::known_weak_hash_algo$'])
    ctx.check(P + ':unlock:v6-weak-hash', 'R-dom', 'a rejecting branch on known_weak_hash_algo exists in the v6 block', bool(weak), function=b.path,
              guards=[site(b, g) for g, _ in weak])
    v6usage = []
    for i, t in b.switches():
        info = enum_switch_info(b, i)
        if info and info[0].endswith('S2kParams') and any(v in dom[i] for v in v6):
            can = b.can_reach(set(derive))
            acc = set()
            for j, _ in b.succ(i):
                if j in can:
                    acc.update(edge_variants(b, i, j) or [])
            if acc and acc != {'Unprotected', 'LegacyCfb', 'Aead', 'Cfb', 'MalleableCfb'}:
                v6usage.append((i, acc))
    ctx.check(P + ':unlock:v6-usage-set', 'R-table', 'for v6 keys only usages {Aead, Cfb} proceed to derivation',
              any(acc == {'Aead', 'Cfb'} for _, acc in v6usage), function=b.path, table=[sorted(a) for _, a in v6usage])
    # Aead arm: only Argon2 / IteratedAndSalted
    aead_s2k = []
    for i, t in b.switches():
        info = enum_switch_info(b, i)
        if info and info[0].endswith('StringToKey'):
            arms = [vs for adt, vs in arm_context(b, i, dom) if adt == 'S2kParams']
            if arms and min(arms, key=len) == ['Aead'] and not any(v in dom[i] and b.line(v) < b.line(i) and False for v in v6):
                can = b.can_reach(set(call_blocks(b, r'AeadAlgorithm::decrypt_in_place$')))
                acc = set()
                for j, _ in b.succ(i):
                    if j in can:
                        acc.update(edge_variants(b, i, j) or [])
                aead_s2k.append(acc)
    ctx.check(P + ':unlock:aead-s2k-kinds', 'R-table', 'usage 253 derives only with Argon2 or IteratedAndSalted',
              {'Argon2', 'IteratedAndSalted'} in [set(a) for a in aead_s2k], function=b.path, table=[sorted(a) for a in aead_s2k])

    # PlainSecretParams::try_from_reader (checksum variant) compares the simple checksum for v2/v3/v4
    bb = ctx.body('types::params::plain_secret::PlainSecretParams::try_from_reader')
    if bb is not None:
        oks = ok_exit_blocks(bb)
        gs = guard_switches(bb, oks, [r'call:.*compare_checksum_simple$|call:.*checksum::simple'])
        cs = call_blocks(bb, r'compare_checksum_simple$')
        ctx.check(P + ':plain:checksum-parser-checks', 'R-dom', 'the checksum-bearing parser propagates compare_checksum_simple for pre-v6 keys',
                  bool(gs) and bool(cs), function=bb.path, guards=[site(bb, g) for g, _ in gs])

    bb = ctx.body('types::params::plain_secret::s2k_usage_aead')
    if bb is not None:
        names = [t['f'].get('fn', '') for i, t in bb.calls()]
        need = ['Serialize::to_writer', 'Hkdf', 'Tag::encode']
        oks = ok_exit_blocks(bb)
        # the WHOLE public key packet body: Serialize::to_writer invoked on the key parameter's own type (not on one of its parts)
        kty = re.sub(r"^&('\w+ )?(mut )?", '', bb.r['locals'][3]['ty'])
        ser = [i for i, t in bb.calls(r'ser::Serialize::to_writer$') if has_origin(bb.operand_origins(t['args'][0]), r'param:3$') and t['f'].get('selfty') == kty]
        every, _ = must_pass(bb, oks, ser) if ser else (False, None)
        ok = every and any('hkdf' in n.lower() for n in names)
        ctx.check(P + ':usage-aead:binds-public-key', 'R-seq', 's2k_usage_aead serialises the public key (its `pub_key` parameter) into the associated data on EVERY path to Ok, for every key version, and derives through HKDF', ok,
                  function=bb.path, table=sorted(set(n.split('::')[-1] for n in names))[:20])


def lock(ctx, P):
    b = ctx.body('types::params::plain_secret::PlainSecretParams::encrypt')
    if b is None:
        return
    ctx.check(P + ':lock:same-aead-derivation', 'R-who', 'PlainSecretParams::encrypt uses the same s2k_usage_aead derivation as unlock',
              bool(b.calls(r's2k_usage_aead$')) and bool(b.calls(r'AeadAlgorithm::encrypt_in_place$')), function=b.path)
    # SHA-1 appended before CFB encryption in the Cfb arm
    enc = call_blocks(b, r'encrypt_with_iv_regular$')
    sha = call_blocks(b, r'checksum_sha1$|calculate_sha1$')
    dom = b.dominators()
    cfb_enc = [e for e in enc if any(adt == 'S2kParams' and vs == ['Cfb'] for adt, vs in arm_context(b, e, dom))]
    ok, wit = must_pass(b, cfb_enc, sha) if cfb_enc else (False, None)
    ctx.check(P + ':lock:cfb-appends-sha1', 'R-seq', 'usage 254 lock computes the SHA-1 before CFB encryption', ok and bool(sha), function=b.path)
    callers = sorted(p for p, r in ctx.f.bodies.items() if ctx.wrap(r).calls(r'plain_secret::s2k_usage_aead$'))
    ctx.check(P + ':who-calls-usage-aead', 'R-who', 's2k_usage_aead is the single derivation shared by lock and unlock',
              set(callers) == {'types::params::plain_secret::PlainSecretParams::encrypt', U}, table=callers)


def tag_binding(ctx, P):
    """S2K usage 253 binds the packet type into the key derivation and the associated data.  Lock and unlock agree only if both take
    the tag of the key they operate on: at every call of PlainSecretParams::encrypt / EncryptedSecretParams::unlock the tag argument
    is the tag of the object's own stored packet header, or a constant that is the tag of the implementing type
    (SecretKey -> Tag::SecretKey, SecretSubkey -> Tag::SecretSubkey)."""
    n = 0
    per_type = {}
    for p, r in sorted(ctx.f.bodies.items()):
        if r.get('derived') or '::tests::' in p:
            continue
        b = ctx.wrap(r)
        cs = b.calls(r'EncryptedSecretParams::unlock$|PlainSecretParams::encrypt$')
        if not cs:
            ctx.functions.discard(p)
            continue
        self_ty = (r.get('impl_self') or '').split('::')[-1]
        for i, t in cs:
            ks = [j for j, a in enumerate(t['args']) if 'l' in a and not a['pr'] and 'Option<types::packet::Tag>' in b.r['locals'][a['l']]['ty']]
            if not ks:
                continue
            n += 1
            og = b.operand_origins(t['args'][ks[0]])
            consts = sorted(set(m.group(1) for x in og for m in [re.match(r'agg:types::packet::Tag::(\w+)$', x)] if m))
            own = has_origin(og, r'call:.*PacketHeader::tag$') and has_origin(og, r'field:%s\.packet_header$' % re.escape(self_ty)) if self_ty else has_origin(og, r'call:.*PacketHeader::tag$')
            ok = (own and not consts) or (not own and consts == [self_ty])
            per_type.setdefault(self_ty, set()).add(('own' if own else '') + '|'.join(consts))
            ctx.check('%s:tag-binding:%s:%s' % (P, p, t['f']['fn'].split('::')[-1]), 'R-sib',
                      '%s passes the packet tag of the key it operates on to %s (its own stored header, or the constant tag of %s)' % (p.split('::')[-1], t['f']['fn'].split('::')[-1], self_ty or 'its type'),
                      ok, function=p, site=site(b, i), missing=None if ok else 'tag argument: %s in an impl of %s' % (consts or 'unrelated value', self_ty))
    ctx.floor(P + ':tag-binding:floor', 'lock / unlock call sites that pass a packet tag', n, 6)


def lock_unlock_agree(ctx, P):
    """What the lock side produces the unlock side must accept (R-sib over PlainSecretParams::encrypt / EncryptedSecretParams::unlock):
    (1) both derive the key with the cipher's key_size(), never a constant; (2) per S2K usage arm, the S2K specifier kinds under which
    the key derivation is reached on the lock side are a subset of those on the unlock side; (3) the version-6 restriction (a
    rejecting test of the specifier kind and of the usage that is control-dependent on version == V6) exists on both sides with the
    same accepted specifier kinds."""
    from rules.common import enum_switch_info, edge_variants
    lb = ctx.body('types::params::plain_secret::PlainSecretParams::encrypt')
    ub = ctx.body(U)
    if lb is None or ub is None:
        return
    ALL = None
    def table(b):
        dom = b.dominators()
        t = {}
        sizes = []
        for i, tt in b.calls(r'StringToKey::derive_key$'):
            ac = arm_context(b, i, dom)
            use = [vs for a, vs in ac if a == 'S2kParams']
            kinds = [vs for a, vs in ac if a == 'StringToKey']
            for u in (use[-1] if use else ['?']):
                t[u] = sorted(kinds[-1]) if kinds else ALL
            sizes.append(has_origin(b.operand_origins(tt['args'][2]), r'call:.*SymmetricKeyAlgorithm::key_size$') and 'k' not in tt['args'][2])
        return t, sizes
    lt, ls = table(lb)
    ut, us = table(ub)
    ctx.check(P + ':lock-unlock:key-size-from-cipher', 'R-sib', 'lock and unlock derive the S2K key with the length of the cipher in use (sym_alg.key_size()), not a constant',
              bool(ls) and bool(us) and all(ls) and all(us), function=lb.path)
    bad = {}
    for u, kinds in lt.items():
        if u not in ut:
            continue
        if ut[u] is not ALL and (kinds is ALL or not set(kinds) <= set(ut[u])):
            bad[u] = dict(lock=kinds or 'any', unlock=ut[u])
    ctx.check(P + ':lock-unlock:specifier-kinds', 'R-sib', 'per S2K usage, the specifier kinds the lock side accepts are accepted by the unlock side (a key locked with the right password can be unlocked)',
              not bad and bool(lt) and bool(ut), function=lb.path, table=dict(lock=lt, unlock=ut), missing=bad or None)
    V6 = r'agg:types::packet::KeyVersion::V6$'
    def v6_kinds(b):
        derive = set(call_blocks(b, r'StringToKey::derive_key$'))
        out = None
        for g, t in b.switches():
            info = enum_switch_info(b, g)
            if not info or not info[0].endswith('StringToKey'):
                continue
            if not guard_switches(b, [g], [V6]):
                continue
            can = b.can_reach(derive)
            acc = set()
            for j, _ in b.succ(g):
                if j in can:
                    acc |= set(edge_variants(b, g, j) or [])
            out = sorted(acc) if out is None else sorted(set(out) & acc)
        return out
    lk, uk = v6_kinds(lb), v6_kinds(ub)
    ctx.check(P + ':lock-unlock:v6-restriction', 'R-sib', 'the version-6 restriction on S2K specifier kinds is applied when locking exactly as when unlocking',
              lk is not None and uk is not None and lk == uk, function=lb.path, table=dict(lock=lk, unlock=uk),
              missing=None if (lk is not None and lk == uk) else 'the lock side accepts v6 / specifier combinations that unlock refuses (lock=%s unlock=%s)' % (lk, uk))


def from_slice(ctx, P):
    b = ctx.body('types::params::secret::SecretParams::from_slice')
    if b is None:
        cands = [p for p in ctx.f.bodies if p.startswith('types::params::secret::SecretParams::') and 'from_' in p]
        ctx.note('SecretParams::from_slice not found; candidates %s' % cands)
        return
    oks = ok_exit_blocks(b)
    gs = guard_switches(b, oks, [r'param:2$|param:1$'])
    ctx.check(P + ':from_slice:v6-usage-restriction', 'R-dom', 'SecretParams::from_slice has a rejecting branch on (version, usage octet)', len(gs) >= 1, function=b.path,
              guards=[site(b, g) for g, _ in gs])
