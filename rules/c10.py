"""C10 ASCII armor (DESIGN §5 C10)."""
import re
from rules import stream
from rules.common import rdom, call_blocks, ok_exit_blocks, site, arm_context, single_defs
from core import guard_switches, must_pass, fmt_path, has_origin

EXPLANATION = ("Decides structural clauses of C10, not the behaviour: every digest/CRC accumulator update in the crate is applied to state that "
               "outlives the statement (no update on a copy taken out of a field — rule R-lost, whole crate); Dearmor::read_footer returns Ok only "
               "after the crc24_status branch and the header/footer type comparison; crc24_status reports CheckedOk only on the equal edge of "
               "comparing the footer checksum with Hasher::finish of the accumulated CRC; both armor body writers build a 64-column LF LineWriter "
               "(type-level column count decoded from the call's generic argument) fed through a TeeWriter into the CRC that write_footer emits "
               "as three octets; buffered tails are finished explicitly. Not decided: round trip for all lengths, tolerant-reading equivalences."
               ' Also: block-type words (writer = parser = RFC), framing literals, `: ` separator on every header line, structural BlockType equality at the footer, explicit finishers reach the inner finisher, the header grammar restores Incomplete for a cut line, and (shared with C04) the R-panic inventory over armor / base64 / line-writer.')
ASSUMPTIONS = ["crc24::Crc24Hasher and the base64 crate are correct"]


def typenum_value(s):
    bits = re.findall(r'typenum::B([01])', s)
    if 'UTerm' not in s or not bits:
        return None
    v = 0
    for bch in bits:
        v = v * 2 + int(bch)
    return v


RFC_BLOCK_TYPES = {  # RFC 9580 §6.2
    'PublicKey': 'PGP PUBLIC KEY BLOCK', 'PrivateKey': 'PGP PRIVATE KEY BLOCK', 'Message': 'PGP MESSAGE',
    'Signature': 'PGP SIGNATURE', 'CleartextMessage': 'PGP SIGNED MESSAGE', 'File': 'PGP ARMORED FILE',
}


def _const_str(b, o, defs):
    from rules.common import resolve_value
    for _ in range(4):
        k, v = resolve_value(b, o, defs)
        if k == 'constx' and 's' in v:
            return v['s'].strip('"')
        if k == 'rv' and v['k'] == 'ref' and v['p']['pr'] in (['*'], []):
            o = dict(l=v['p']['l'], pr=[], mv=0)
            continue
        return None
    return None


def block_type_tables(ctx, P):
    """R-table: the block-type word written between `-----BEGIN ` and `-----` (Display for BlockType) and the word the header
    parser maps back to the same variant are the same string, and for the OpenPGP types equal RFC 9580 §6.2."""
    from rules.common import single_defs, resolve_value
    rb = ctx.body('armor::reader::armor_header_type')
    wb = ctx.body('<armor::reader::BlockType as std::fmt::Display>::fmt')
    if rb is None or wb is None:
        return
    defs = single_defs(rb)
    rt = {}
    for i, t in rb.calls(r'nom::combinator::value$'):
        vs = sorted(x.split('::')[-1] for x in rb.operand_origins(t['args'][0]) if x.startswith('agg:armor::reader::BlockType::'))
        sub = sorted(x.split('::')[-1] for x in rb.operand_origins(t['args'][0]) if x.startswith('agg:armor::reader::PKCS1Type::'))
        k, v = resolve_value(rb, t['args'][1], defs)
        st = _const_str(rb, v['args'][0], defs) if k == 'call' and v['f'].get('fn', '').endswith('::tag') else None
        if len(vs) == 1 and not sub:
            rt.setdefault(vs[0], set()).add(st)
    defs = single_defs(wb)
    dom = wb.dominators()
    wt = {}
    for i, t in wb.calls(r'Formatter::<.*>::write_str$'):
        arms = [vs for adt, vs in arm_context(wb, i, dom) if adt == 'BlockType']
        st = _const_str(wb, t['args'][1], defs)
        for a in (min(arms, key=len) if arms else ['?']):
            wt.setdefault(a, set()).add(st)
    table = {v: dict(parser=sorted(map(str, rt.get(v, []))), writer=sorted(map(str, wt.get(v, [])))) for v in sorted(set(rt) | set(wt))}
    bad = {v: t for v, t in table.items() if v in rt and v in wt and t['parser'] != t['writer']}
    ctx.check(P + ':S10-5:block-type-strings-agree', 'R-table', 'for every block type with a literal word, the armor writer emits the word the header parser maps back to the same type',
              not bad and len([v for v in table if v in rt and v in wt]) >= 6, function=wb.path, table=table, missing=bad or None)
    rfc_bad = {v: table.get(v) for v, w in RFC_BLOCK_TYPES.items() if table.get(v, {}).get('writer') != [w] or table.get(v, {}).get('parser') != [w]}
    ctx.check(P + ':S10-5:block-type-strings-rfc', 'R-table', 'the OpenPGP block-type words equal RFC 9580 §6.2', not rfc_bad, function=rb.path, missing=rfc_bad or None)
    # the framing around the word: constants of the writer in order, and the parser's tags
    def consts(b):
        out = []
        def walk(x):
            if isinstance(x, dict):
                if isinstance(x.get('k'), dict) and 's' in x['k'] and x['k']['s'].startswith('b"'):
                    out.append(x['k']['s'][2:-1])
                for v in x.values():
                    walk(v)
            elif isinstance(x, list):
                for v in x:
                    walk(v)
        walk(b.blocks)
        return out
    want = {'armor::writer::write_header': ['-----BEGIN ', '-----\\n', ': '],
            'armor::writer::write_footer': ['=', '-----END ', '-----\\n'],
            'armor::reader::armor_header_sep': ['-----'], 'armor::reader::armor_header_line': ['BEGIN '],
            'armor::reader::armor_footer_line': ['---END ']}
    for path, w in want.items():
        b = ctx.body(path)
        if b is None:
            continue
        got = ''.join(consts(b))
        pos, ok = 0, True
        for x in w:   # in this order, anywhere in the concatenation of the function's byte-string literals (robust to re-chunking of writes)
            k = got.find(x, pos)
            ok &= k >= 0
            pos = k + len(x) if k >= 0 else pos
        ctx.check(P + ':S10-5:framing:' + path.split('::')[-1], 'R-table', 'the byte-string literals of %s contain, in order, %s (RFC 9580 §6.2 framing)' % (path.split('::')[-1], w),
                  ok, function=path, table=got)


def header_key_line_bounded(ctx, P):
    """The key of an armor header line ends at the first separator OF THAT LINE.  An unbounded substring search (nom take_until /
    take_until1) for a needle such as ":\\n" runs past the end of the line: a value ending in ':' (or any later line ending in ':')
    is then taken for the separator and the preceding text, line breaks included, becomes the key."""
    b = ctx.body('armor::reader::key_value_pair')
    if b is None:
        return
    unb = [(i, t) for i, t in b.calls(r'nom::bytes::(streaming|complete)::take_until1?$')]
    ctx.check(P + ':S10-6:header-key-line-bounded', 'R-who', 'key_value_pair delimits the header key within the current line (no unbounded take_until search across line breaks)',
              not unb, function=b.path, site=site(b, unb[0][0]) if unb else None,
              missing=None if not unb else '%d take_until searches scan the whole remaining input: headers {"Comment": ["see:"]} are read back as {"Comment: see": [""]}' % len(unb))


def header_line_separator(ctx, P):
    """Every armor header line the writer emits contains the `: ` separator: no iteration of the header loops writes anything
    while avoiding the write of the separator (RFC 9580 §6.2: `Key: Value` — the dearmorer splits lines at this separator)."""
    from rules.common import single_defs
    b = ctx.body('armor::writer::write_header')
    if b is None:
        return
    defs = single_defs(b)
    writes = call_blocks(b, r'Write::write_all$')
    sep = [i for i in writes if _const_str_b(b, b.blocks[i]['t']['args'][1], defs) == ': ']
    heads = call_blocks(b, r'Iterator::next$')
    bad = None
    for h in heads:
        fwd = b.reach_from([j for j, _ in b.succ(h)], removed=frozenset(sep))
        if h not in fwd:
            continue
        for w in writes:
            if w in sep or w not in fwd:
                continue
            back = b.reach_from([j for j, _ in b.succ(w)], removed=frozenset(sep))
            if h in back:
                bad = (h, w)
    ctx.check(P + ':S10-5:header-line-has-separator', 'R-seq', 'write_header: every loop iteration that writes anything writes the `: ` separator',
              bool(sep) and len(heads) >= 2 and bad is None, function=b.path, site=site(b, bad[1]) if bad else None,
              missing=None if bad is None else 'a header line can be written without the `: ` separator')


def _const_str_b(b, o, defs):
    from rules.common import resolve_value
    for _ in range(5):
        k, v = resolve_value(b, o, defs)
        if k == 'constx' and 's' in v and v['s'].startswith('b"'):
            return v['s'][2:-1]
        if k == 'rv' and v['k'] == 'ref':
            o = dict(l=v['p']['l'], pr=[x for x in v['p']['pr'] if x != '*'], mv=0)
            if o['pr']:
                return None
            continue
        if k == 'rv' and v['k'] == 'cast':
            o = v['o'][0]
            continue
        if k == 'call' and v['f'].get('fn', '').endswith('ops::Index::index'):
            o = v['args'][0]
            continue
        return None
    return None


def checksum_token_bounded(ctx, P):
    """read_checksum copies the decoded checksum octets into a 4-octet buffer starting at index `len`: safe only for at most 3
    decoded octets, i.e. a base64 token of at most 4 characters.  That bound is established by its only user, footer_parser, which
    takes the token with a constant count.  (The index sites in read_checksum are reviewed baseline entries that rest on this.)"""
    import json
    fp = ctx.body('armor::reader::footer_parser')
    if fp is None:
        return
    bodies = [fp] + [ctx.wrap(r) for r in ctx.f.closures_of(fp.path)]
    takes = []
    unbounded = []
    for b in bodies:
        for i, t in b.calls(r'^nom::bytes::(streaming|complete)::\w+$'):
            fn = t['f']['fn'].split('::')[-1]
            if fn == 'take':
                c = t['args'][0].get('k', {}).get('v') if t['args'] else None
                takes.append((site(b, i), c))
            elif re.match(r'take_while|take_till|take_until|is_a|is_not', fn):
                unbounded.append('%s at %s' % (fn, site(b, i)))
    users = sorted(p for p, r in ctx.f.bodies.items() if p != 'armor::reader::read_checksum' and 'armor::reader::read_checksum"' in json.dumps(r['blocks']))
    ok = bool(takes) and all(c is not None and c <= 4 for _, c in takes) and not unbounded and all(u.startswith('armor::reader::footer_parser') for u in users) and bool(users)
    ctx.check(P + ':checksum-token-bounded', 'R-who', 'the base64 checksum token handed to read_checksum has a constant length of at most 4 characters (taken with nom take(4) in footer_parser, its only user)',
              ok, function=fp.path, takes=takes, users=users, missing=(unbounded or ['no constant-count take / other users: %s' % users]) if not ok else None)


def headers_accumulate(ctx, P):
    """Armor headers are a multimap: the writer emits one `Key: value` line per value.  The reader's collection of key/value lines
    therefore has to ACCUMULATE values under a repeated key (`entry(k).or_default().push(v)`), not overwrite them (`insert`, or
    `collect()` into a map, which keeps only the last value)."""
    fp = ctx.body('armor::reader::armor_headers')
    if fp is None:
        return
    bodies = [fp] + [ctx.wrap(r) for r in ctx.f.closures_of(fp.path)]
    acc, over = [], []
    for b in bodies:
        for i, t in b.calls():
            full = t['f'].get('full', '') or ''
            fn = t['f']['fn']
            if re.search(r'btree_map::Entry::<.*>::(or_default|or_insert|or_insert_with)$', full) or re.search(r'Entry::<.*>::(or_default|or_insert)', fn):
                acc.append(site(b, i))
            if re.search(r'BTreeMap::<.*>::insert$', full) or (re.search(r'Iterator::collect$|FromIterator::from_iter$', fn) and 'BTreeMap' in full):
                over.append(site(b, i))
    pushes = [site(b, i) for b in bodies for i, t in b.calls(r'Vec::<T, A>::(push|extend)$')]
    ctx.check(P + ':headers-accumulate', 'R-table', 'armor_headers accumulates the values of a repeated header key (entry + push), it does not overwrite them',
              bool(acc) and bool(pushes) and not over, function=fp.path, sites=acc, missing=over or (None if acc else ['no entry().or_default() accumulation found']))


def footer_tolerates_blank_lines(ctx, P):
    """Between the body (or the `=CRC` line) and the `-----END` line any number of line breaks may occur — the base64 layer eats
    them only when they arrive in the same fill as the preceding characters, so whether the footer parser sees them depends on the
    payload length.  Both alternatives of footer_parser therefore repeat `line_ending` (many0), they do not accept at most one."""
    fp = ctx.body('armor::reader::footer_parser')
    if fp is None:
        return
    many = [i for i, t in fp.calls(r'^nom::multi::many0$') if 'nom::character::streaming::line_ending' in (t['f'].get('full', '') or '') or 'line_ending' in (t['f'].get('full', '') or '')]
    opts = [i for i, t in fp.calls(r'^nom::combinator::opt$') if 'line_ending' in (t['f'].get('full', '') or '')]
    alts = len(fp.calls(r'^nom::sequence::delimited$'))
    ctx.check(P + ':footer-blank-lines', 'R-table', 'each alternative of footer_parser skips any number of line breaks in front of the END line (many0(line_ending))',
              alts >= 2 and len(many) >= alts and not opts, function=fp.path, sites=[site(fp, i) for i in many], alternatives=alts,
              missing=None if (len(many) >= alts and not opts) else 'an alternative accepts at most one line break: %s' % [site(fp, i) for i in opts])


def line_writer_flush_is_forwarding(ctx, P):
    """`flush()` of the 64-column line writer only flushes the inner writer: the pending partial line stays buffered (its length is
    the column counter and decides whether finish() ends the last line), so a source that flushes does not change the armor."""
    cands = [p for p in ctx.f.bodies if p.startswith('<line_writer::LineWriter<') and p.endswith('as std::io::Write>::flush')]
    if not cands:
        return
    b = ctx.body(cands[0])
    calls = [t['f']['fn'] for i, t in b.calls()]
    stores = [s_ for blk in b.blocks for s_ in blk['s'] if s_['d']['l'] == 1 and len(s_['d']['pr']) > 1]
    ctx.check(P + ':line-writer-flush-forwards', 'R-who', 'LineWriter::flush forwards to the inner writer\'s flush and neither writes the pending partial line nor touches the column counter',
              calls == ['std::io::Write::flush'] and not stores, function=b.path, calls=calls, missing=None if (calls == ['std::io::Write::flush'] and not stores) else 'calls %s, %d stores to self' % (calls, len(stores)))


def literal_of(b, o, defs, depth=0):
    """The string / byte-string literal an operand denotes (through references, `[..]` of the literal and unsizing), or None."""
    for _ in range(10):
        if 'k' in o:
            sv = o['k'].get('s')
            if isinstance(sv, str):
                if sv.startswith('b"') and sv.endswith('"'):
                    return sv[2:-1]
                if sv.startswith('"') and sv.endswith('"'):
                    return sv[1:-1]
            return None
        if 'l' not in o:
            return None
        d = defs.get(o['l'])
        if d is None:
            return None
        x = d[1]
        if x.get('k') == 'call':
            if re.search(r'ops::Index(Mut)?::index(_mut)?$|ops::Deref::deref$|AsRef::as_ref$|::as_bytes$', x['f'].get('fn', '') or '') and x['args']:
                o = x['args'][0]
                continue
            return None
        r = x['r']
        if r['k'] in ('use', 'cast'):
            o = r['o'][0]
            continue
        if r['k'] in ('ref', 'copyderef'):
            o = dict(l=r['p']['l'], pr=[])
            continue
        return None
    return None


def leading_text_skip(ctx, P):
    """Tolerant reading: text in front of the armor is skipped by searching for a pattern, after which the header LINE parser must
    match at once.  The search pattern therefore has to be the complete opener that the line parser requires first (the separator
    followed by `BEGIN `); searching for less stops at the first harmless occurrence of the shorter pattern in the leading text
    (a forwarded-mail rule, a Markdown ruler) and the whole armor is refused.  Sibling agreement between two functions, both read
    from the code - no literal is frozen in the rule."""
    hp = ctx.body('armor::reader::header_parser')
    lp = ctx.body('armor::reader::armor_header_line')
    sp = ctx.body('armor::reader::armor_header_sep')
    if hp is None or lp is None or sp is None:
        return
    skips = [literal_of(hp, t['args'][0], single_defs(hp)) for i, t in hp.calls(r'nom::bytes::streaming::take_until$') if t['args']]
    sep = [literal_of(sp, t['args'][0], single_defs(sp)) for i, t in sp.calls(r'nom::bytes::streaming::tag$') if t['args']]
    first = [literal_of(lp, t['args'][0], single_defs(lp)) for i, t in lp.calls(r'nom::bytes::streaming::tag$') if t['args']]
    # the line parser is `delimited(pair(sep, tag(FIRST)), type, pair(sep, line_ending))`: FIRST = its own first tag literal
    opener = (sep[0] + first[0]) if sep and first and sep[0] is not None and first[0] is not None else None
    ctx.check(P + ':S10-7:leading-text-skipped-to-full-opener', 'R-sib',
              'the pattern header_parser searches for to skip leading text is the whole opener the header-line parser requires (%r)' % (opener,),
              opener is not None and len(skips) == 1 and skips[0] == opener, function=hp.path, table=dict(skip=skips, separator=sep, line_first_tag=first),
              missing=None if (opener is not None and skips == [opener]) else 'skips to %r but the line parser needs %r right there: leading text that contains the shorter pattern makes the armor unreadable' % (skips, opener))


def dash_line_tolerates_trailing_blanks(ctx, P):
    """RFC 9580 6.2: the armor header and tail lines "MUST NOT have text other than whitespace following them on the same line" -
    whitespace is allowed there.  The line parsers are nom sequences `.. armor_header_sep, line_ending ..`: in every sequence of
    armor::reader that names the five-dash separator directly before the line ending, a blank skipper (`space0`) stands between the
    two (read off the resolved generic arguments of the combinator calls)."""
    n = 0
    bad = []
    for p, r in sorted(ctx.f.bodies.items()):
        if not p.startswith('armor::reader::') or '::tests::' in p:
            continue
        b = ctx.wrap(r)
        for i, t in b.calls(r'nom::sequence::(pair|terminated|delimited|preceded|tuple)$|nom::Parser::parse$'):
            full = t['f'].get('full') or ''
            k = full.rfind('{armor::reader::armor_header_sep}')
            if k < 0:
                continue
            rest = full[k:]
            m = re.search(r'\{nom::character::(?:streaming|complete)::line_ending', rest)
            if not m:
                continue
            n += 1
            if not re.search(r'\{nom::character::(?:streaming|complete)::(space0|multispace0|space1)', rest[:m.start()]):
                bad.append(site(b, i))
    bad = sorted(set(bad))
    ctx.check(P + ':S10-8:dash-line-trailing-blanks', 'R-table', 'every armor header / tail line parser skips blanks between the closing dashes and the line ending',
              n >= 2 and not bad, count=n, site=bad[0] if bad else None, function='armor::reader::armor_header_line',
              missing=None if (n >= 2 and not bad) else ('the sequence at %s goes from the five dashes straight to the line ending: `-----BEGIN PGP MESSAGE----- ` followed by a line break is refused' % bad[0] if bad else 'dash line sequences not found'))


def header_key_prefers_the_separator(ctx, P):
    """An armor header `Key: Value` is split at the FIRST `": "` of the line; only a line without that separator may be a value-less
    header ending in `:`.  Testing the trailing colon first mis-splits every header whose value ends in a colon (`Comment: see also:`
    comes back as key "Comment: see also"), so the header map does not survive armor -> dearmor.  In `header_key` the trailing-colon
    test runs only after the separator search (the search dominates it)."""
    b = ctx.body('armor::reader::header_key')
    if b is None:
        ctx.missing(P + ':S10-9:header-key-separator-first', 'armor::reader::header_key not found')
        return
    pos = [i for i, t in b.calls(r'Iterator::position$')]
    strips = [i for i, t in b.calls(r'strip_suffix$')]
    dom = b.dominators()
    after = [i for i in strips if any(p_ in dom.get(i, ()) for p_ in pos)]
    ctx.check(P + ':S10-9:header-key-separator-first', 'R-seq', 'header_key looks for the first `": "` before it falls back to a trailing `:` (value-less header)',
              bool(pos) and bool(after), function=b.path, site=site(b, pos[0]) if pos else None,
              missing=None if (pos and after) else 'no trailing-colon test is dominated by the separator search: a value that ends in `:` turns the whole line into the key')


def run(ctx):
    P = 'C10'
    header_key_prefers_the_separator(ctx, P)
    stream.r_lost(ctx, P, 'S10-1')
    leading_text_skip(ctx, P)
    dash_line_tolerates_trailing_blanks(ctx, P)
    stream.finished_flag_set_after_the_writes(ctx, P)
    stream.tee_writer(ctx, P)        # the emitted CRC-24 is computed by the tee over exactly what was written
    # no error of the armor / base64 layer is dropped: an undecodable checksum line that becomes "no checksum" is an accepted input
    # whose checksum does not match (R-err of C09 restricted to the armor stack)
    stream.r_err(ctx, P, only=r'(^|<)(armor|base64|line_writer|crc24)::', floor=100)
    stream.zero_result_of_empty_request(ctx, P)
    b = ctx.body('armor::reader::Dearmor::<R>::read_footer')
    if b is not None:
        oks = ok_exit_blocks(b)
        rdom(ctx, P + ':S10-2:footer-crc-checked', b, oks, [r'call:.*Dearmor::<R>::crc24_status$'],
             'read_footer returns Ok only after branching on crc24_status() (CheckedInvalid => error)')
        from rules.sig import conditional_guard
        conditional_guard(ctx, P + ':S10-4:footer-type-matches-header', b, oks, r'field:Dearmor\.typ$', [r'callty:std::cmp::PartialEq::(ne|eq)@&*armor::reader::BlockType$'],
                          'when a header type was seen, read_footer returns Ok only after comparing the footer block type with it (rejecting)')
        der = [ctx.f.body(x) for x in ('<armor::reader::BlockType as std::cmp::PartialEq>::eq', '<armor::reader::PKCS1Type as std::cmp::PartialEq>::eq')]
        ctx.check(P + ':S10-4:block-type-equality-structural', 'R-who', 'equality of BlockType (and its PKCS1Type parameter) is the derived structural comparison, so header and footer must agree in kind and parameters',
                  all(d is not None and d.get('derived') for d in der), function=b.path)
        st = [i for i, blk in enumerate(b.blocks) for s in blk['s'] if s['d']['pr'] and s['d']['pr'][-1].endswith('Dearmor.checksum')]
        cs = call_blocks(b, r'crc24_status$')
        ok, _ = must_pass(b, cs, st) if cs else (False, None)
        ctx.check(P + ':S10-2:checksum-stored-before-status', 'R-seq', 'the footer checksum is stored before crc24_status is evaluated', ok and bool(st), function=b.path)
    b = ctx.body('armor::reader::Dearmor::<R>::crc24_status')
    if b is not None:
        okc = [i for i, k, s in b.constructs(r'ArmorCrc24Status$', 'CheckedOk')]
        rdom(ctx, P + ':S10-2:status-compares', b, okc, [r'call:.*Hasher::finish$', r'field:Dearmor\.checksum$|field:.*Option::Some\.0$'],
             'CheckedOk is reported only on a branch comparing the footer value with Hasher::finish of the accumulated CRC')
        bad = [i for i, k, s in b.constructs(r'ArmorCrc24Status$', 'CheckedInvalid')]
        ctx.check(P + ':S10-2:status-has-invalid', 'R-table', 'crc24_status can report CheckedInvalid', bool(bad), function=b.path)
    # writers
    n = 0
    for p, r in sorted(ctx.f.bodies.items()):
        if '::tests::' in p:
            continue
        b = ctx.wrap(r)
        news = b.calls(r'line_writer::LineWriter::<.*>::new$')
        if not news or not ('armor' in p or 'builder' in p):
            if not news:
                ctx.functions.discard(p)
            continue
        for i, t in news:
            n += 1
            cols = typenum_value(t['f']['full'])
            lb = b.operand_origins(t['args'][1])
            ctx.check('%s:S10-3:columns:%s' % (P, p), 'generic-arg', 'armor body lines are produced by a 64-column LineWriter with LF breaks in %s' % p.split('::')[-1],
                      cols == 64 and has_origin(lb, r'agg:line_writer::LineBreak::Lf$'), function=p, site=site(b, i), table=dict(columns=cols))
        tee = b.calls(r'util::TeeWriter::<.*>::new$')
        foot = [p2 for p2 in ()]
        ctx.check('%s:S10-3:tee-into-crc:%s' % (P, p), 'origin', 'the body bytes are tee-d into the CRC-24 hasher before base64 encoding in %s' % p.split('::')[-1],
                  bool(tee) and all(has_origin(b.operand_origins(t['args'][1]), r'call:.*Base64Encoder::<.*>::new$') for i, t in tee), function=p)
    ctx.floor(P + ':S10-3:floor', 'armor body LineWriter creation sites', n, 2)
    b = ctx.body('armor::writer::write_footer')
    if b is not None:
        arr = b.stmts(lambda s: s['r']['k'] == 'agg' and s['r'].get('ak') == 'array')
        ok = False
        for i, k, s in arr:
            if len(s['r']['o']) == 3 and all(has_origin(b.operand_origins(o), r'call:.*Hasher::finish$') for o in s['r']['o']):
                ok = True
        shifts = sorted(o['k']['v'] for i, k, s in b.stmts(lambda s: s['r']['k'] == 'bin' and s['r']['op'] in ('Shr', 'ShrUnchecked')) for o in s['r']['o'][1:] if 'k' in o and 'v' in o['k'])
        # equivalent idiom: the low three octets of the big-endian u32, `&(crc as u32).to_be_bytes()[1..]`
        from rules.common import single_defs, resolve_value
        defs = single_defs(b)
        be = False
        for i, t in b.calls(r'ops::Index::index$'):
            if not has_origin(b.operand_origins(t['args'][0]), r'call:.*u32::to_be_bytes$') or not has_origin(b.operand_origins(t['args'][0]), r'call:.*Hasher::finish$'):
                continue
            kk, rv = resolve_value(b, t['args'][1], defs)
            if kk == 'rv' and rv['k'] == 'agg' and rv['o'] and 'k' in rv['o'][0] and rv['o'][0]['k'].get('v') == 1 and (len(rv['o']) == 1 or ('k' in rv['o'][1] and rv['o'][1]['k'].get('v') == 4)):
                be = True
        ctx.check(P + ':S10-3:crc-three-octets', 'origin', 'the emitted checksum is three octets derived from Hasher::finish of the tee-d CRC', ok or be, function=b.path)
        ctx.check(P + ':S10-3:crc-shifts', 'R-table', 'the three checksum octets are crc>>16, crc>>8, crc (or the low three octets of to_be_bytes)', shifts == [8, 16] or be, function=b.path, table=shifts)
    stream.r_pair(ctx, P)
    stream.wrapper_finishers(ctx, P)
    block_type_tables(ctx, P)
    header_line_separator(ctx, P)
    header_key_line_bounded(ctx, P)
    checksum_token_bounded(ctx, P)
    headers_accumulate(ctx, P)
    footer_tolerates_blank_lines(ctx, P)
    line_writer_flush_is_forwarding(ctx, P)
    stream.partial_buffer_verdicts(ctx, P)
    # tolerant reading must not panic on any armored input: the R-panic inventory of C04 restricted to the armor / base64 / line-writer modules
    from rules import c04
    c04.r_panic(ctx, P, only=r'armor::|base64::|line_writer::', floors=(70, 35, 5))
